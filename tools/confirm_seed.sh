#!/bin/bash
# tools/confirm_seed.sh <Cnn> <worktree> : confirm a seeded change (demo fails with / passes without; passing tests kept),
# then run the check against it in /repo and revert.
P=$1; W=$2
set -u
cd "$W" || exit 3
[ -f patch.diff ] || { echo "no patch.diff"; exit 3; }
demo=$(ls demo_*.py | head -1)
git checkout -q -- dassh
PYTHONPATH=$W timeout 600 /venv/bin/python $demo >/tmp/seedwork/$P.demo_without.log 2>&1; r0=$?
git apply patch.diff || { echo "patch does not apply"; exit 3; }
PYTHONPATH=$W timeout 600 /venv/bin/python $demo >/tmp/seedwork/$P.demo_with.log 2>&1; r1=$?
echo "demo exit without=$r0 with=$r1"
PYTHONPATH=$W /venv/bin/python -m pytest -q -p no:cacheprovider --timeout=900 --continue-on-collection-errors -rA 2>&1 | grep "^PASSED" | sort > /tmp/seedwork/$P.passed.txt
lost=$(comm -23 /tmp/seedwork/baseline_passed.txt /tmp/seedwork/$P.passed.txt | wc -l)
echo "passing tests lost: $lost (of $(wc -l < /tmp/seedwork/baseline_passed.txt))"
# now the check against the patched tree: by default /repo itself (patch applied, check, reverted); with SEED_SCRATCH=1 the
# worktree of the seed is used through VERIF_REPO so that /repo stays untouched (needed while other checks are running)
if [ -n "${SEED_SCRATCH:-}" ]; then
  cd /verif && VERIF_REPO=$W VERIF_OUT=/tmp/seedwork/out timeout 3000 bin/check $P ${3:-quick} > /tmp/seedwork/$P.check.log 2>&1; rc=$?
  PYTHONPATH=$W:/verif /verif/.venv/bin/python -c "import dassh; print('checked package:', dassh.__file__)"
else
cd /repo && git apply "$W/patch.diff" || { echo "patch does not apply to /repo"; exit 3; }
cd /verif && timeout 3000 bin/check $P ${3:-quick} > /tmp/seedwork/$P.check.log 2>&1; rc=$?
cd /repo && git checkout -- . 
fi
echo "check exit=$rc"; grep -c "^VIOLATION" /tmp/seedwork/$P.check.log; grep "violated:" /tmp/seedwork/$P.check.log | head -3 | cut -c1-300; tail -2 /tmp/seedwork/$P.check.log | cut -c1-300
git -C /repo status --short | grep -v egg-info
