#!/usr/bin/env python3
"""Regenerate MANIFEST.json from the table below (kept in one place so it is always valid)."""
import json
import os

V = os.path.dirname(os.path.dirname(os.path.abspath(__file__)))

TECH = 'bounded symbolic execution of the real Python/NumPy code on z3 reals + SMT (z3 5.1, cvc5 1.4 portfolio); counterexamples replayed in float64 on the unpatched code'
NOTE = ('Trusted base: z3/cvc5, the symx shim (Sym operator overloading, NumPy proxy; validated by concrete replays), '
        'real-number semantics instead of IEEE-754 (DESIGN 2.6), stubs and assumptions enumerated in the evidence file. '
        'Claim holds only inside the bounds listed in evidence.coverage.bounds.')

CHECKS = {
    'C05': ('3/C05', 'Every claim about the mesh construction methods (step choice, one loop iteration from an arbitrary grid plane, '
            'bounded whole loop, boundary merge) is an SMT query over all real-valued inputs inside the stated bounds; unsat = holds.  '
            'The order of the set-up calls is checked on enumerated real Reactors (every requirement incl. the gap recomputed with the real routines).'),
}

CHECKS['C14'] = ('3/C14', 'The real per-step pressure-drop methods are run over an arbitrary symbolic partition of a region (planes, '
                 'rounded steps, grid positions incl. exactly on a plane, all coefficients); closed forms, non-negativity and '
                 'exactly-once grid counting are SMT queries on every path of the grid-in-step test.')

CHECKS['C20'] = ('3/C20', 'Orificing._group runs symbolically as a whole under a fork-depth budget and, inductively, as one lifted loop '
                 'iteration plus loop-exit/epilogue from arbitrary states; distribute() as lifted prologue, one iteration from an '
                 'arbitrary state, epilogue, and a bounded whole run; partition, order, count, conservation and limit claims are SMT queries.')

CHECKS['C17'] = ('3/C17', 'Every float leaf of the real reader\'s data dictionary (complete generated input) is a solver variable; the real '
                 'conversion functions run for all 90 unit combinations and every accepted unit spelling; per-leaf conversion '
                 'exactly once / unchanged, round trips and exception-freedom are SMT queries against an independent key classification.')

CHECKS['C19'] = ('3/C19', 'hotspot.calculate_temps, the clad split, expression evaluation and the peak-rise extraction run on symbolic '
                 'tables; identity at unity, >= nominal, monotone in output sigma, 1/input-sigma scaling and the cumulative structure are '
                 'SMT queries (square roots by an abstraction ladder with solver-proved lemma chains).')

CHECKS['C15'] = ('3/C15', 'The real running-maximum updates (coolant, per-duct mid-wall, pin locations with radial profile) are applied '
                 'one to three times from an arbitrary previous peak to arbitrary symbolic fields; every ordering is a path and the '
                 'maximum / height / profile / untouched-duct claims are SMT queries; induction over the fold gives the sweep maximum.  Peak store and the '
                 'coolant / duct summary tables are additionally checked on enumerated real sweeps (public path, values read back from the printed tables).')

CHECKS['C11'] = ('3/C11', 'The real duct-wall solvers run with all temperatures, film coefficients, conductivity, thickness and wall '
                 'power symbolic on a real bundle (1-3 ducts) and on both low-fidelity regions; both flux boundary conditions, the '
                 'mid-wall closed form and the unheated ordering are SMT queries per wall cell.')

CHECKS['C08'] = ('3/C08', 'calculate_geometry runs with symbolic dimensions (tiling identities and the GEOM invariant are polynomial '
                 'identities decided by z3, ring counts enumerated); the index tables of the real Subchannel/PinLattice constructors '
                 'are asserted point-wise and the quantified topology statements decided with the cell/pin index as a solver variable '
                 '(finite-domain, exhaustive over the enumerated ring/duct counts).')

CHECKS['C01'] = ('3/C01', 'One explicit step of the real coolant update methods from an arbitrary symbolic state (fields, powers, step, '
                 'flow, properties, correlated parameters, derived geometry): enthalpy rise = tallied power + tallied wall heat as a single '
                 'identity (small bundles) and in a decomposed form that scales (affinity per cell + every unit-field column), for '
                 'interior, bypass and low-fidelity regions; tallies equal their definitions; mixed mean carried across region changes.')

CHECKS['C04'] = ('3/C04', 'Linear probing by the solver: unit fields through the real explicit update methods give the operator weights as '
                 'rational functions of a symbolic state; dz is bounded by the value the real criterion returns (each limiting cell type is a '
                 'path); weights >= 0 (self weights by solver-checked proof scripts with term abstraction) and weights summing to one are SMT '
                 'queries; interior, bypass (flowing and stagnant) and both low-fidelity models.')

CHECKS['C10'] = ('3/C10', 'Boundary arrays from the real calculate_xbnds/_calculate_gap_xbnds with symbolic pitches and corner lengths; the '
                 'real _map_asm2gap runs on them with every mesh interleaving as a path; non-negativity, rows summing to one, adjointness '
                 'and preservation of the perimeter-weighted integral are SMT queries per entry.')

CHECKS['C06'] = ('3/C06', 'Self-composition over the real clone code: A cloned next to a sibling that updated its material last vs A cloned '
                 'alone, real Material objects with property tables as uninterpreted functions; the solver decides whether the two explicit '
                 'steps can differ.  The object graph after the real clone methods and in a real Reactor is checked for shared stateful objects; on enumerated '
                 'real Reactors one assembly is advanced and every number reachable from the others must be unchanged, and every assembly is compared with its stand-alone twin.')

CHECKS['C12'] = ('3/C12', 'For each of the 120 accepted correlation combinations the real correlated-parameter routines run on a real bundle '
                 'with a symbolic viscosity (bundle Re in (10, 1e6)); every regime combination of the three correlation families is a '
                 'path; no path may end in an exception (68 combinations do in the transition regime: recorded known finding); mass '
                 'conservation, signs of the split and finiteness (every logarithm evaluated on the path has a positive argument; Novendstern '
                 'friction below Re ~ 21 does not: recorded known finding) are SMT queries per path.  Laminar/turbulent Cheng-Todreas gradient equality '
                 'is a concrete evaluation per enumerated bundle; transition-regime equalisation is outside (not built).')

CHECKS['C03'] = ('3/C03', 'A real AssemblyPower built from symbolic non-negative polynomial profiles; presweep_setup and the sequence of '
                 'get_power_sweep calls of a sweep run for arbitrary plane positions inside each power cell and for each placement of the '
                 'pin-bundle bounds relative to the power mesh: deposited = assigned is an SMT query per configuration; _integrate vs closed '
                 'form; core normalisation and scaling of every profile; one real region step is homogeneous in (power, temperature excess) '
                 '(self-composition).')

CHECKS['C09'] = ('3/C09', 'The geometry routines of the real Core re-run on Cores built by real Reactors (enumerated layouts) with mesh '
                 'pitches, hex side, gap width and sqrt(3) symbolic: perimeter covered once, shared cells seen identically, symmetric '
                 'conduction resistances, total area independent of the meshes are SMT queries; index tables of Core.load checked per '
                 'layout (enumeration, no symbolic dimension).')

CHECKS['C02'] = ('3/C02', 'Cores built by the real Reactor (enumerated layouts: unequal meshes, unrodded, double duct, empty centre) with '
                 'symbolic state: a real Core.calculate_gap_temperatures step closes cell by cell (credits = film flux * contact length * dz, '
                 'conduction exchange antisymmetric); a real Reactor.axial_step gives heat leaving each assembly on its mesh = heat credited '
                 'on the gap mesh (1e-9 relative, linear arithmetic); adiabatic option leaves the gap untouched.')

CHECKS['C13'] = ('3/C13', 'PinModel.calculate_temperatures with symbolic power, coolant temperature, film coefficient, step and '
                 'uninterpreted positive conductivity functions; each outcome of the convergence tests within the fork budget is a path; '
                 'ordering, zero-power identity, film / clad / gap (conduction + radiation) / fuel-shell closed forms with the logged '
                 'conductivity evaluations, and the pin-adjacent coolant average are SMT queries.')

CHECKS['C07'] = ('3/C07', 'Self-composition over the real step code: two copies of a region (shared symbolic derived state) carry fields and '
                 'powers related by the permutation that the published centroid coordinates induce for each rotation / the mirror image '
                 '(mirror copy: index tables and swirl donor column of a region constructed with the opposite wire direction); "result of '
                 'copy 2 = permuted result of copy 1" is an SMT query per cell for coolant, bypass, duct walls, pin inputs and the six-node region; '
                 'core: a real gap step (three gap models) and a real Reactor.axial_step on a loading pattern and on the pattern turned by 60 degrees, '
                 'symbolic states tied by the coordinate-induced permutations.')

CHECKS['C18'] = ('3/C18', 'The real validators of the reader (axial regions, pins, ducts, core section, boundary conditions, power-profile sign) run '
                 'on the data dictionary of a real DASSH_Input with the numeric leaves symbolic; "accepted => the validity predicate of the property" '
                 'is an SMT claim on every accepting path and any exception other than the error exit is a violation; counterexamples are confirmed '
                 'by writing an input file with the solver values and running DASSH_Input -> Reactor -> first planes of the sweep.  Malformed '
                 'power files are an enumerated auxiliary instance.')

NOT_APPLICABLE = {
    'C16': ('No symbolic dimension for a solver: process schedules/multiprocessing/file output, bitwise IEEE determinism, and '
            'object-identity/type mutation of the input dictionary on `is None`/key-presence branches (DESIGN section 4).'),
}

PENDING = 'check not built yet in this round (see DESIGN section 3 for the planned obligations); nothing is claimed'


def main():
    props = [json.loads(l)['id'] for l in open(os.path.join(V, 'properties.jsonl'))]
    checks = []
    for pid in props:
        if pid in CHECKS:
            ref, text = CHECKS[pid]
            checks.append({
                'property_id': pid,
                'quick_cmd': 'bin/check %s quick' % pid,
                'thorough_cmd': 'bin/check %s thorough' % pid,
                'evidence_file': 'evidence/%s.json' % pid,
                'replay_cmd_template': 'bin/replay {path}',
                'engine': 'symx',
                'level_claimed': {'category': 'other', 'text': text, 'design_ref': 'DESIGN.md section ' + ref},
                'level_note': NOTE,
                'technique': TECH,
            })
    na = []
    for pid in props:
        if pid in CHECKS:
            continue
        na.append({'property_id': pid, 'reason': NOT_APPLICABLE.get(pid, PENDING)})
    m = {
        'version': 1,
        'setup_cmd': 'bin/ensure_env.sh',
        'hooks': {
            'guard': 'DASSH_DEV_DASSH_VERIF',
            'enable': 'no source hooks are needed: the engine patches module globals from outside; bin/check exports DASSH_DEV_DASSH_VERIF=1 for uniformity',
            'baseline_off_cmd': 'cd /repo && /venv/bin/python -m pytest -ra -q -p no:cacheprovider --timeout=900 --continue-on-collection-errors',
            'source_commits': [],
            'add_only': True,
        },
        'engines': [{'name': 'symx', 'path': 'symx/', 'serves_properties': sorted(CHECKS),
                     'kind_free_text': 'operator-overloading symbolic executor for the real dassh Python/NumPy code; z3 + cvc5; path forking on every symbolic comparison; dual-mode harnesses (symbolic / float64 replay)'}],
        'checks': checks,
        'not_applicable': na,
        'notes': 'Exit codes of every check: 0 held on everything explored; 1 reproduced violation (VIOLATION line); 2 inconclusive or harness error (nothing claimed). known_findings.json lists recorded findings and fixed defects.',
    }
    with open(os.path.join(V, 'MANIFEST.json'), 'w') as f:
        json.dump(m, f, indent=1)
    print('MANIFEST: %d checks, %d not_applicable' % (len(checks), len(na)))


if __name__ == '__main__':
    main()
