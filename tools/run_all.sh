#!/bin/bash
# tools/run_all.sh [tier] [ids...]: run every claimed check once, print exit code and wall time per check.
T=${1:-quick}; shift
cd "$(dirname "$(readlink -f "$0")")/.."
IDS=${@:-$(python3 -c "import json;print(' '.join(c['property_id'] for c in json.load(open('MANIFEST.json'))['checks']))")}
mkdir -p /tmp/runall
for p in $IDS; do
  s=$(date +%s)
  bin/check $p $T > /tmp/runall/$p.$T.log 2>&1; rc=$?
  e=$(date +%s)
  echo "$p $T exit=$rc wall=$((e-s))s $(tail -1 /tmp/runall/$p.$T.log | cut -c1-120)"
done
