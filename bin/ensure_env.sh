#!/bin/bash
# Idempotent, offline: overlay venv of /venv (repo deps) + z3-solver, cvc5, crosshair-tool
# from the offline wheelhouse.  Only committed files survive a restore, so every
# registered command calls this first.
set -e
V=/verif/.venv
STAMP=$V/.ok
if [ -f "$STAMP" ] && "$V/bin/python" -c "import z3, numpy" 2>/dev/null; then
    exit 0
fi
(
  flock 9
  if [ -f "$STAMP" ] && "$V/bin/python" -c "import z3, numpy" 2>/dev/null; then
      exit 0
  fi
  rm -rf "$V"
  /venv/bin/python -m venv "$V"
  SP=$("$V/bin/python" -c "import sysconfig; print(sysconfig.get_paths()['purelib'])")
  printf "/venv/lib/python3.12/site-packages\n/repo\n" > "$SP/base.pth"
  PIP_NO_INDEX=1 "$V/bin/pip" install -q --no-index --find-links /opt/veriftools/wheels \
      z3-solver cvc5 crosshair-tool >/dev/null 2>&1 || \
  PIP_NO_INDEX=1 "$V/bin/pip" install -q --no-index --find-links /opt/veriftools/wheels z3-solver
  "$V/bin/python" -c "import z3, numpy; print('env ok', z3.get_version_string(), numpy.__version__)"
  touch "$STAMP"
) 9>/verif/.venv.lock
