"""Construct real dassh objects (concretely) that harnesses then make symbolic."""
import logging
import math
import os

import numpy as np

logging.disable(logging.CRITICAL)

import dassh  # noqa: E402
from dassh.material import Material  # noqa: E402
import dassh.region_rodded as rrm  # noqa: E402
import dassh.region_unrodded as rum  # noqa: E402


def fixed_material(name='na_fixed', k=75.0, cp=1275.0, rho=850.0, mu=0.00025):
    return Material(name, coeff_dict={'thermal_conductivity': [k], 'heat_capacity': [cp],
                                      'density': [rho], 'viscosity': [mu]})


def duct_material(name='ss_fixed', k=25.0):
    return Material(name, coeff_dict={'thermal_conductivity': [k], 'heat_capacity': [500.0],
                                      'density': [7800.0], 'viscosity': [1.0]})


def bundle_dims(n_ring, n_duct=1, P=0.0065, D=0.0055, Dw=0.00095, wall=0.002, byp=0.003, clr=0.0004):
    ftf0 = math.sqrt(3) * (n_ring - 1) * P + D + 2 * Dw + clr
    ftf = []
    x = ftf0
    for i in range(n_duct):
        # every wall and every bypass gap has its own thickness: a counterexample that needs two gaps (or walls) to
        # differ must be realisable with the constructed fixture
        w_i = wall * (1 + 0.15 * i)
        b_i = byp * (1 + 0.2 * i)
        ftf += [x, x + 2 * w_i]
        x = x + 2 * w_i + 2 * b_i
    return dict(P=P, D=D, Dw=Dw, ftf=ftf)


def make_rodded(n_ring=2, n_duct=1, fr=1.0, corr=('CTD', 'CTD', 'CTD'), spacer_grid=None,
                byp_ff=None, wwdir='clockwise', coolant=None, duct=None, gravity=False,
                se2=False, sf=1.0, H=0.2, dims=None, update_tol=0.0, byp_k=None):
    from symx import npshim
    d = dims or bundle_dims(n_ring, n_duct)
    coolant = coolant or Material('sodium')
    duct = duct or Material('ht9')
    with npshim.unpatched():
        r = rrm.RoddedRegion('fx', n_ring, d['P'], d['D'], H, d['Dw'], 0.0005, list(d['ftf']), fr,
                             coolant, duct, None, corr[0], corr[1], corr[2], 'DB', None,
                             spacer_grid, byp_ff, byp_k, wwdir, sf, se2, update_tol, gravity)
    return r


def make_unrodded(model='simple', fr=1.0, ftf=(0.026, 0.028), vf=0.3, z=(0.0, 1.0), coolant=None,
                  duct=None, convection_factor=1.0, lowflow=False, gravity=False, rr_equiv=None, **kw):
    coolant = coolant or Material('sodium')
    duct = duct or Material('ht9')
    from symx import npshim
    cls = rum.SingleNodeHomogeneous if model == 'simple' else rum.MultiNodeHomogeneous
    with npshim.unpatched():
        kw.setdefault('gravity', gravity)
        kw.setdefault('lowflow', lowflow)
        if convection_factor != 1.0:
            kw.setdefault('convection_factor', convection_factor)
        if rr_equiv is not None:
            kw.setdefault('rr_equiv', rr_equiv)
        return cls('ur', z[0], z[1], list(ftf), vf, fr, coolant, duct, None, **kw)
