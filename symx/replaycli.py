"""bin/replay <file>: run a recorded counterexample on the unpatched code."""
import fractions
import importlib
import json
import os
import sys

from . import harness


def main():
    path = sys.argv[1]
    with open(path) as f:
        r = json.load(f)
    prop = r['property'].lower()
    hdir = os.path.join(os.path.dirname(os.path.dirname(os.path.abspath(__file__))), 'harness')
    mods = [m[:-3] for m in os.listdir(hdir) if m.startswith(prop + '_') and m.endswith('.py')]
    mod = importlib.import_module('harness.' + mods[0])
    inst = None
    for tier in ('quick', 'thorough'):
        for i in mod.instances(tier):
            if i['label'] == r['instance']:
                inst = i
                break
        if inst:
            break
    if inst is None:
        print('instance %s not found' % r['instance'])
        sys.exit(2)
    vals = {k: fractions.Fraction(int(v['num']), int(v['den'])) for k, v in r['inputs'].items()}
    st, detail = harness.replay_once(inst['body'], vals, inst.get('params'), r['claim'], inst.get('rel_tol', 1e-9))
    print('replay %s / %s: %s %s' % (r['instance'], r['claim'], st, json.dumps(detail, default=str)[:500]))
    if st == 'missing' and detail.get('failed_seen'):
        # the recorded claim is not reached in the float run; other claims of the instance fail at these inputs
        print('replay: claim not reached; failing on the real code: %s' % ', '.join(detail['failed_seen']))
        sys.exit(1)
    sys.exit(1 if st == 'violated' else 0)


if __name__ == '__main__':
    main()
