"""symx.core -- symbolic values, fork handling and path exploration.

The real functions of /repo are executed on `Sym` objects (z3 Real terms with
Python operator overloading).  Every comparison of a symbolic value yields a
`SymBool`; taking its truth value is a *fork*: both outcomes are checked for
feasibility under the path condition by the solver and the run is re-executed
for each feasible decision sequence (depth-first, decision-log replay).

Nothing here samples: inputs are solver variables; verdicts are z3 answers.
"""
import fractions
import math
import time

import numpy as _np
import z3


class PathAbort(BaseException):
    """Infeasible path (control exception; deliberately not an Exception)."""


class BudgetExceeded(BaseException):
    """Fork-depth budget exceeded on this path (outside the unrolling bound)."""


class Concretised(Exception):
    """A symbolic value was forced to a concrete float/int."""


# --------------------------------------------------------------------------
# statistics shared by every query of the process
STATS = {'queries': 0, 'unsat': 0, 'sat': 0, 'unknown': 0, 'solver_s': 0.0,
         'forks': 0, 'feas_queries': 0, 'rlimit': 0}

DEFAULT_TIMEOUT_MS = 60000
FEAS_TIMEOUT_MS = 10000


def _tally(res, dt):
    STATS['queries'] += 1
    STATS[res] = STATS.get(res, 0) + 1
    STATS['solver_s'] += dt


class Ctx:
    """State of one path execution."""

    def __init__(self, assumptions=(), replay=(), pending=None, max_depth=64):
        self.assumptions = list(assumptions)
        self.side = []            # side constraints (sqrt, rounding ints, UF axioms)
        self.decisions = []       # (expr, taken)
        self.replay = list(replay)
        self.pos = 0
        self.pending = pending if pending is not None else []
        self.nfresh = 0
        self.max_depth = max_depth
        self.notes = []           # free-form notes (stubs used etc.)
        self.inputs = {}          # name -> z3 const (declared inputs)
        self._sqrts = {}          # ast id of argument -> (argument, fresh sqrt var)
        self.strong = set()       # indices into self.side of 'strong' (nonlinear defining) constraints
        self._decided = {}        # z3 ast id -> decision (cache; ids are stable while the ast is alive)
        self._keep = []
        self._logs = {}
        self._logseen = set()
        self.domain = []          # (function name, z3 condition): arguments that must lie in the function's domain

    # ---- naming
    def fresh(self, name, sort='real'):
        self.nfresh += 1
        n = '%s!%d' % (name, self.nfresh)
        return z3.Real(n) if sort == 'real' else z3.Int(n)

    def pc(self):
        return (self.assumptions + self.side +
                [e if t else z3.Not(e) for e, t in self.decisions])

    def pc_weak(self):
        """Path condition without the 'strong' side constraints (a weaker set of
        assumptions: unsat under it implies unsat under the full one)."""
        return (self.assumptions + [c for i, c in enumerate(self.side) if i not in self.strong] +
                [e if t else z3.Not(e) for e, t in self.decisions])

    def pc_base(self):
        """Declared assumptions and weak side constraints only (no branch decisions): an even weaker set."""
        return self.assumptions + [c for i, c in enumerate(self.side) if i not in self.strong]

    def assume(self, *es):
        for e in es:
            if isinstance(e, SymBool):
                e = e.e
            self.assumptions.append(e)

    # ---- feasibility
    def feasible(self, extra):
        t0 = time.time()
        if SOLVER_ORDER[0] == 'cvc5' and USE_CVC5:
            s = z3.Solver()
            s.add(*self.pc())
            s.add(extra)
            r, _m = _cvc5_check(s.to_smt2(), FEAS_TIMEOUT_MS)
        else:
            s = z3.Solver()
            s.set('timeout', FEAS_TIMEOUT_MS)
            s.add(*self.pc())
            s.add(extra)
            r = str(s.check())
        STATS['feas_queries'] += 1
        STATS['solver_s'] += time.time() - t0
        return r != 'unsat'

    def decide(self, expr):
        expr = z3.simplify(expr)
        if z3.is_true(expr):
            return True
        if z3.is_false(expr):
            return False
        eid = expr.get_id()
        if eid in self._decided:          # same condition already decided on this path
            return self._decided[eid]
        if self.pos < len(self.replay):
            taken = self.replay[self.pos]
            self.pos += 1
            self.decisions.append((expr, taken))
            self._decided[eid] = taken
            self._keep.append(expr)
            return taken
        if len(self.decisions) >= self.max_depth:
            raise BudgetExceeded()
        STATS['forks'] += 1
        t_ok = self.feasible(expr)
        f_ok = self.feasible(z3.Not(expr))
        if t_ok and f_ok:
            taken = True
            self.pending.append(list(self.replay[:self.pos]) + [False])
        elif t_ok:
            taken = True
        elif f_ok:
            taken = False
        else:
            raise PathAbort()
        self.replay = list(self.replay[:self.pos]) + [taken]
        self.pos += 1
        self.decisions.append((expr, taken))
        self._decided[eid] = taken
        self._keep.append(expr)
        return taken


CTX = None


def ctx():
    return CTX


def set_ctx(c):
    global CTX
    CTX = c


# --------------------------------------------------------------------------
def toz(x):
    """Python/NumPy number or Sym -> z3 Real term."""
    if isinstance(x, Sym):
        return x.e
    if isinstance(x, (bool, _np.bool_)):
        return z3.RealVal(int(x))
    if isinstance(x, (int, _np.integer)):
        return z3.RealVal(int(x))
    if isinstance(x, (float, _np.floating)):
        xf = float(x)
        if math.isnan(xf) or math.isinf(xf):
            raise TypeError('non-finite float in symbolic arithmetic: %r' % xf)
        # shortest decimal representation: 0.01 -> 1/100 (see DESIGN 2.1)
        return z3.RealVal(fractions.Fraction(repr(xf)))
    if isinstance(x, fractions.Fraction):
        return z3.RealVal(x)
    if isinstance(x, z3.ArithRef):
        return x
    if isinstance(x, _np.ndarray) and x.ndim == 0:
        return toz(x.item())
    raise TypeError(type(x))


def is_sym(x):
    return isinstance(x, (Sym, SymBool))


class SymBool:
    __slots__ = ('e',)

    def __init__(self, e):
        self.e = e

    def __bool__(self):
        return CTX.decide(self.e)

    @staticmethod
    def _z(o):
        if isinstance(o, SymBool):
            return o.e
        return z3.BoolVal(bool(o))

    def __and__(self, o):
        return SymBool(z3.And(self.e, self._z(o)))

    __rand__ = __and__

    def __or__(self, o):
        return SymBool(z3.Or(self.e, self._z(o)))

    __ror__ = __or__

    def __invert__(self):
        return SymBool(z3.Not(self.e))

    def __abs__(self):
        return self

    def __repr__(self):
        return 'SymBool(%s)' % self.e


class Sym:
    """Symbolic real.  Division is kept as written (no cross-multiplication)."""

    __slots__ = ('e',)

    def __init__(self, e):
        self.e = e

    # arithmetic ---------------------------------------------------------
    def _b(self, o, f):
        if isinstance(o, _np.ndarray) and o.ndim > 0:
            return NotImplemented
        try:
            oz = toz(o)
        except TypeError:
            return NotImplemented
        return Sym(f(self.e, oz))

    def _rb(self, o, f):
        if isinstance(o, _np.ndarray) and o.ndim > 0:
            return NotImplemented
        try:
            oz = toz(o)
        except TypeError:
            return NotImplemented
        return Sym(f(oz, self.e))

    def __add__(self, o):
        if isinstance(o, (int, float)) and o == 0:
            return self
        return self._b(o, lambda a, b: a + b)

    def __radd__(self, o):
        if isinstance(o, (int, float)) and o == 0:
            return self
        return self._rb(o, lambda a, b: a + b)

    def __sub__(self, o):
        if isinstance(o, (int, float)) and o == 0:
            return self
        return self._b(o, lambda a, b: a - b)

    def __rsub__(self, o):
        return self._rb(o, lambda a, b: a - b)

    def __mul__(self, o):
        if isinstance(o, (int, float)) and not isinstance(o, bool):
            if o == 0:
                return 0.0
            if o == 1:
                return self
        return self._b(o, lambda a, b: a * b)

    def __rmul__(self, o):
        if isinstance(o, (int, float)) and not isinstance(o, bool):
            if o == 0:
                return 0.0
            if o == 1:
                return self
        return self._rb(o, lambda a, b: a * b)

    def __truediv__(self, o):
        if isinstance(o, (int, float)) and o == 1:
            return self
        return self._b(o, lambda a, b: a / b)

    def __rtruediv__(self, o):
        if isinstance(o, (int, float)) and o == 0:
            return 0.0
        return self._rb(o, lambda a, b: a / b)

    def __neg__(self):
        return Sym(-self.e)

    def __pos__(self):
        return self

    def __abs__(self):
        return Sym(z3.If(self.e >= 0, self.e, -self.e))

    def __pow__(self, p):
        if isinstance(p, Sym):
            return Sym(POW(self.e, p.e))
        if isinstance(p, (int, _np.integer)) or (
                isinstance(p, (float, _np.floating)) and float(p) == int(p)):
            p = int(p)
            if p == 0:
                return 1.0
            r = self.e
            for _ in range(abs(p) - 1):
                r = r * self.e
            return Sym(r if p > 0 else 1 / r)
        if isinstance(p, (float, _np.floating)) and float(p) == 0.5:
            return sym_sqrt(self)
        r = POW(self.e, toz(p))
        if CTX is not None:
            k = ('pow', r.get_id())
            if k not in CTX._sqrts:
                CTX._sqrts[k] = (r, r)
                # real power of a positive base is positive; monotone in the base for p > 0
                CTX.side.append(z3.Implies(self.e > 0, r > 0))
                CTX.domain.append(('pow', self.e >= 0))
        return Sym(r)

    def __rpow__(self, b):
        return Sym(POW(toz(b), self.e))

    # comparisons --------------------------------------------------------
    def _c(self, o, f):
        if isinstance(o, _np.ndarray) and o.ndim > 0:
            return NotImplemented
        try:
            oz = toz(o)
        except TypeError:
            return NotImplemented
        return SymBool(f(self.e, oz))

    def __lt__(self, o):
        return self._c(o, lambda a, b: a < b)

    def __le__(self, o):
        return self._c(o, lambda a, b: a <= b)

    def __gt__(self, o):
        return self._c(o, lambda a, b: a > b)

    def __ge__(self, o):
        return self._c(o, lambda a, b: a >= b)

    def __eq__(self, o):
        return self._c(o, lambda a, b: a == b)

    def __ne__(self, o):
        return self._c(o, lambda a, b: a != b)

    __hash__ = None

    def __bool__(self):
        # truth value of a number (`x or default`, `if x:`): x != 0, decided / forked like any other comparison
        return CTX.decide(self.e != 0)

    # no silent concretisation -------------------------------------------
    def __float__(self):
        raise Concretised('symbolic value forced to float')

    def __int__(self):
        raise Concretised('symbolic value forced to int')

    def __index__(self):
        raise Concretised('symbolic value used as index')

    def __round__(self, n=0):
        return sym_around(self, n)

    def sqrt(self):
        return sym_sqrt(self)

    def __repr__(self):
        s = str(self.e)
        return 'Sym(%s)' % (s if len(s) < 80 else s[:77] + '...')

    def __format__(self, spec):
        return '<sym>'


# --------------------------------------------------------------------------
# uninterpreted functions
POW = z3.Function('POW', z3.RealSort(), z3.RealSort(), z3.RealSort())
_UF = {}


def uf(name, arity=1):
    key = (name, arity)
    if key not in _UF:
        _UF[key] = z3.Function(name, *([z3.RealSort()] * (arity + 1)))
    return _UF[key]


SQRT_MONO_LEMMAS = True


def sym_sqrt(x):
    """sqrt(x) as a fresh s with s >= 0 (weak) and s*s == x (strong).  The same argument
    term gives the same s; for every pair of square roots on the path the true lemma
    x_a <= x_b  <=>  s_a <= s_b is added (weak level), so that most inequalities are decided
    without the nonlinear defining equation (abstraction ladder, DESIGN 2.7)."""
    if isinstance(x, Sym):
        c = CTX
        key = x.e.get_id()
        hit = c._sqrts.get(key)
        if hit is not None:
            return Sym(hit[1])
        s = c.fresh('sqrt')
        c.side.append(s >= 0)
        c.side.append(s * s == x.e)
        c.strong.add(len(c.side) - 1)
        if SQRT_MONO_LEMMAS:
            for kk, (xe, se) in list(c._sqrts.items()):
                if isinstance(kk, tuple):
                    continue
                c.side.append(z3.And((xe <= x.e) == (se <= s), (xe == x.e) == (se == s)))
            c.side.append((x.e == 0) == (s == 0))
            c.side.append(z3.Implies(x.e >= 1, z3.And(s >= 1, s <= x.e)))
            c.side.append(z3.Implies(z3.And(x.e >= 0, x.e <= 1), z3.And(s <= 1, s >= x.e)))
        c._sqrts[key] = (x.e, s)
        return Sym(s)
    return math.sqrt(x)


def sym_around(x, dec=0):
    """round-half-up model of np.around on the reals (DESIGN 2.2)."""
    if isinstance(x, Sym):
        f = 10 ** int(dec)
        n = CTX.fresh('rnd', 'int')
        half = z3.RealVal(1) / 2
        CTX.side.append(z3.And(z3.ToReal(n) <= x.e * f + half,
                               x.e * f + half < z3.ToReal(n) + 1))
        return Sym(z3.ToReal(n) / f)
    return _np.around(x, dec)


def sym_around_known(x, dec, known):
    """np.around(x, dec) when the harness knows a set of values that are exact
    multiples of 10**-dec (e.g. axial planes): the result r is within half a unit
    of x, and equals any known multiple p with |x - p| < half a unit.  Pure linear
    real arithmetic (no integer variable)."""
    if not isinstance(x, Sym):
        return _np.around(x, dec)
    r = CTX.fresh('rndk')
    half = z3.RealVal(1) / (2 * 10 ** int(dec))
    cons = [r - x.e <= half, x.e - r < half]
    for p in known:
        pz = toz(p)
        cons.append(z3.Implies(z3.And(x.e - pz < half, pz - x.e < half), r == pz))
    CTX.side.append(z3.And(*cons))
    return Sym(r)


def sym_floor(x):
    if isinstance(x, Sym):
        n = CTX.fresh('flr', 'int')
        CTX.side.append(z3.And(z3.ToReal(n) <= x.e, x.e < z3.ToReal(n) + 1))
        return Sym(z3.ToReal(n))
    return _np.floor(x)


def sym_ceil(x):
    if isinstance(x, Sym):
        n = CTX.fresh('cel', 'int')
        CTX.side.append(z3.And(z3.ToReal(n) - 1 < x.e, x.e <= z3.ToReal(n)))
        return Sym(z3.ToReal(n))
    return _np.ceil(x)


def sym_max(a, b):
    if isinstance(a, Sym) or isinstance(b, Sym):
        az, bz = toz(a), toz(b)
        return Sym(z3.If(az >= bz, az, bz))
    return max(a, b)


def sym_min(a, b):
    if isinstance(a, Sym) or isinstance(b, Sym):
        az, bz = toz(a), toz(b)
        return Sym(z3.If(az <= bz, az, bz))
    return min(a, b)


def var(name):
    return Sym(z3.Real(name))


# --------------------------------------------------------------------------
class Path:
    __slots__ = ('pc', 'result', 'exc', 'notes', 'decisions', 'cut', 'pc_weak', 'pc_base')

    def __init__(self, pc, result, exc=None, notes=(), decisions=(), cut=False, pc_weak=None, pc_base=None):
        self.pc_base = pc_base
        self.pc = pc
        self.pc_weak = pc_weak
        self.result = result
        self.exc = exc
        self.notes = list(notes)
        self.decisions = list(decisions)
        self.cut = cut


def explore(fn, assumptions=(), max_paths=256, max_depth=64, catch=(Exception, SystemExit)):
    """Run `fn()` under every feasible decision sequence.

    Returns (paths, info).  A path whose execution raised an exception in
    `catch` is returned with `.exc` set (DASSH's log('error') raises
    SystemExit: an *outcome*).  Paths cut by the fork-depth budget have
    `.cut = True` (outside the unrolling bound).  Exceeding `max_paths` sets
    info['truncated'] (the caller must treat that as inconclusive).
    """
    global CTX
    out = []
    pending = [[]]
    info = {'truncated': False, 'aborted': 0, 'cut': 0}
    saved = CTX
    try:
        while pending:
            if len(out) >= max_paths:
                info['truncated'] = True
                break
            replay = pending.pop()
            c = Ctx(assumptions, replay, pending, max_depth)
            CTX = c
            try:
                res = fn()
                out.append(Path(c.pc(), res, None, c.notes, c.decisions, pc_weak=(c.pc_weak() if c.strong else None),
                                pc_base=(c.pc_base() if len(c.decisions) >= 3 else None)))
            except PathAbort:
                info['aborted'] += 1
            except BudgetExceeded:
                info['cut'] += 1
                out.append(Path(c.pc(), None, None, c.notes, c.decisions, cut=True))
            except catch as ex:       # noqa
                out.append(Path(c.pc(), None, ex, c.notes, c.decisions))
    finally:
        CTX = saved
    return out, info


class DictModel:
    """Model returned by the cvc5 fallback: values of the declared constants."""

    def __init__(self, vals):
        self.vals = vals

    def value_of(self, term):
        name = term.decl().name() if z3.is_const(term) else None
        if name is not None and name in self.vals:
            return self.vals[name]
        # evaluate a compound term by substitution
        consts = {}

        def collect(t):
            if z3.is_const(t) and t.decl().kind() == z3.Z3_OP_UNINTERPRETED:
                consts[t.decl().name()] = t
            for ch in t.children():
                collect(ch)
        collect(term)
        subs = []
        for n, c in consts.items():
            v = self.vals.get(n, fractions.Fraction(0))
            subs.append((c, z3.RealVal(v) if z3.is_real(c) else z3.IntVal(int(v))))
        r = z3.simplify(z3.substitute(term, *subs))
        if z3.is_rational_value(r):
            return fractions.Fraction(r.numerator_as_long(), r.denominator_as_long())
        if z3.is_int_value(r):
            return fractions.Fraction(r.as_long())
        raise ValueError('cannot evaluate %s' % term)


USE_CVC5 = True
Z3_FIRST_MS = 8000


def _cvc5_check(smt2, timeout_ms):
    """Run cvc5 (Python API, 1.4) on an SMT-LIB2 text.  Returns (verdict, DictModel|None)."""
    try:
        import cvc5
    except Exception:
        return 'unknown', None
    try:
        slv = cvc5.Solver()
        slv.setOption('tlimit-per', str(int(timeout_ms)))
        slv.setOption('produce-models', 'true')
        slv.setLogic('ALL')
        parser = cvc5.InputParser(slv)
        parser.setStringInput(cvc5.InputLanguage.SMT_LIB_2_6, smt2, 'q')
        sm = parser.getSymbolManager()
        while True:
            cmd = parser.nextCommand()
            if cmd.isNull():
                break
            name = cmd.getCommandName()
            if name in ('check-sat', 'get-model', 'exit', 'set-logic'):
                continue
            cmd.invoke(slv, sm)
        r = slv.checkSat()
        if r.isUnsat():
            return 'unsat', None
        if r.isSat():
            vals = {}
            for t in sm.getDeclaredTerms():
                try:
                    if t.getSort().isReal() or t.getSort().isInteger():
                        v = slv.getValue(t)
                        if v.isIntegerValue():
                            vals[str(t)] = fractions.Fraction(v.getIntegerValue())
                        elif v.isRealValue():
                            vals[str(t)] = fractions.Fraction(v.getRealValue())
                except Exception:
                    pass
            return 'sat', DictModel({k.strip('|'): v for k, v in vals.items()})
        return 'unknown', None
    except Exception as ex:      # any parser/solver error => inconclusive
        STATS['cvc5_errors'] = STATS.get('cvc5_errors', 0) + 1
        return 'unknown', None


SOLVER_ORDER = ('z3', 'cvc5')     # a harness may set ('cvc5', 'z3') for mixed int/real queries


def check_sat(constraints, timeout_ms=None, rlimit=None, portfolio=True):
    """One solver query through the portfolio (z3 API, cvc5 on the exported SMT-LIB2 text).

    The first solver gets a short budget, the second the full one, then the first
    again with the remainder.  Returns (verdict, model-or-None); `unknown` from
    all => inconclusive.
    """
    t0 = time.time()
    total = int(timeout_ms or DEFAULT_TIMEOUT_MS)
    s = z3.Solver()
    if rlimit:
        s.set('rlimit', int(rlimit))
    for c in constraints:
        s.add(c)

    def run_z3(ms):
        s.set('timeout', int(ms))
        r = str(s.check())
        try:
            STATS['rlimit'] += int(s.statistics().get_key_value('rlimit count'))
        except Exception:
            pass
        return r, (s.model() if r == 'sat' else None)

    def run_cvc5(ms):
        STATS['cvc5_queries'] = STATS.get('cvc5_queries', 0) + 1
        r, m = _cvc5_check(s.to_smt2(), ms)
        if r != 'unknown':
            STATS['cvc5_decided'] = STATS.get('cvc5_decided', 0) + 1
        return r, m

    runs = {'z3': run_z3, 'cvc5': run_cvc5}
    if not (portfolio and USE_CVC5):
        r, model = run_z3(total)
    else:
        a, b = SOLVER_ORDER
        first = min(total, Z3_FIRST_MS)
        r, model = runs[a](first)
        if r == 'unknown':
            r, model = runs[b](total)
        if r == 'unknown' and first < total:
            r, model = runs[a](total - first)
    _tally(r, time.time() - t0)
    return r, model


_VARS_CACHE = {}


def term_vars(t):
    """Set of uninterpreted constant names occurring in a z3 term (cached by ast id)."""
    key = t.get_id()
    hit = _VARS_CACHE.get(key)
    if hit is not None:
        return hit[1]
    out = set()
    seen = set()
    stack = [t]
    while stack:
        x = stack.pop()
        i = x.get_id()
        if i in seen:
            continue
        seen.add(i)
        if z3.is_const(x):
            if x.decl().kind() == z3.Z3_OP_UNINTERPRETED:
                out.add(x.decl().name())
        else:
            stack.extend(x.children())
    out = frozenset(out)
    _VARS_CACHE[key] = (t, out)       # keep the term alive so the id stays valid
    if len(_VARS_CACHE) > 200000:
        _VARS_CACHE.clear()
    return out


RELEVANCE = True


def prove(pc, claim, timeout_ms=None, rlimit=None):
    """Is `claim` implied by `pc`?  'unsat' = holds; 'sat' = counterexample.

    Relevance ladder (sound: fewer assumptions can only turn unsat into sat/unknown):
    first only the assumptions whose variables all occur in the claim, then those sharing
    a variable with it, then everything.  Only `unsat` is accepted from the reduced sets;
    a counterexample always comes from the full path condition.
    """
    if isinstance(claim, SymBool):
        claim = claim.e
    if isinstance(claim, bool):
        claim = z3.BoolVal(claim)
    pc = list(pc)
    neg = z3.Not(claim)
    if RELEVANCE and len(pc) > 12:
        cv = term_vars(claim)
        if cv:
            vs = [term_vars(c) for c in pc]
            sub = [c for c, v in zip(pc, vs) if v and v <= cv]
            if sub and len(sub) < len(pc):
                r, _m = check_sat(sub + [neg], min(int(timeout_ms or DEFAULT_TIMEOUT_MS), 10000), rlimit)
                if r == 'unsat':
                    return r, None
            hop = [c for c, v in zip(pc, vs) if v & cv]
            if hop and len(sub) < len(hop) < len(pc):
                r, _m = check_sat(hop + [neg], min(int(timeout_ms or DEFAULT_TIMEOUT_MS), 20000), rlimit)
                if r == 'unsat':
                    return r, None
    return check_sat(pc + [neg], timeout_ms, rlimit)


def prove_abstract(hyps, claim, atoms, timeout_ms=20000):
    """Prove `claim` from `hyps` with the sub-terms `atoms` replaced by fresh variables.
    Abstraction forgets what the atoms are, so `unsat` here implies `unsat` concretely."""
    subs = []
    for k, a in enumerate(atoms):
        if z3.is_const(a) or z3.is_rational_value(a):
            continue
        subs.append((a, z3.Real('abs!%d' % k)))
    # substitute larger terms first
    subs.sort(key=lambda p: -len(p[0].sexpr()))
    def ab(t):
        for a, v in subs:
            t = z3.substitute(t, (a, v))
        return t
    cons = [ab(h) for h in hyps] + [z3.Not(ab(claim))]
    return check_sat(cons, timeout_ms)


def model_value(model, term):
    """Rational value of a z3 term in a model -> Fraction."""
    if isinstance(model, DictModel):
        return model.value_of(term)
    v = model.eval(term, model_completion=True)
    if z3.is_rational_value(v):
        return fractions.Fraction(v.numerator_as_long(), v.denominator_as_long())
    if z3.is_int_value(v):
        return fractions.Fraction(v.as_long())
    if z3.is_algebraic_value(v):
        a = v.approx(30)
        return fractions.Fraction(a.numerator_as_long(), a.denominator_as_long())
    raise ValueError('cannot evaluate %s -> %s' % (term, v))
