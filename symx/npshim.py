"""symx.npshim -- `np` stand-in installed into the dassh modules under analysis.

Delegates to the real NumPy except where a symbolic element would be lost
(constructors) or compared inside C code (max/min/abs/where/...).  Everything else
(dot, sum, cumsum, fancy indexing, roll, ...) is real NumPy on object arrays, calling
back into Sym's operators.
"""
import contextlib
import math
import sys
import types

import numpy as _np
import z3

from . import core
from .core import Sym, SymBool, toz


def _has_sym(a):
    if isinstance(a, (Sym, SymBool)):
        return True
    if isinstance(a, _np.ndarray):
        if a.dtype != object:
            return False
        return any(isinstance(v, (Sym, SymBool)) for v in a.ravel())
    if isinstance(a, (list, tuple)):
        return any(_has_sym(v) for v in a)
    return False


def _vec(f):
    return _np.vectorize(f, otypes=[object])


class SymArray(_np.ndarray):
    """Object array whose comparisons fork element-wise and return a real boolean array
    (what NumPy returns for float arrays), so that `a[a > 1.0] = 1.0` works on symbols."""

    def _cmp(self, other, op):
        a = _np.asarray(self)
        b = _np.asarray(other) if isinstance(other, _np.ndarray) else other
        if isinstance(b, _np.ndarray):
            a, b = _np.broadcast_arrays(a, b)
            out = _np.empty(a.shape, dtype=bool)
            for idx in _np.ndindex(a.shape):
                out[idx] = bool(op(a[idx], b[idx]))
            return out
        out = _np.empty(a.shape, dtype=bool)
        for idx in _np.ndindex(a.shape):
            out[idx] = bool(op(a[idx], b))
        return out

    def __gt__(self, o):
        return self._cmp(o, lambda x, y: x > y)

    def __ge__(self, o):
        return self._cmp(o, lambda x, y: x >= y)

    def __lt__(self, o):
        return self._cmp(o, lambda x, y: x < y)

    def __le__(self, o):
        return self._cmp(o, lambda x, y: x <= y)

    def __eq__(self, o):
        return self._cmp(o, lambda x, y: x == y)

    def __ne__(self, o):
        return self._cmp(o, lambda x, y: x != y)

    __hash__ = None

    def __array_wrap__(self, out_arr, context=None, return_scalar=False):
        # reductions of a subclass give 0-d arrays; hand back the element itself
        if isinstance(out_arr, _np.ndarray) and out_arr.ndim == 0:
            return out_arr.item() if out_arr.dtype == object else out_arr[()]
        if isinstance(out_arr, _np.ndarray) and out_arr.dtype == object:
            return out_arr.view(SymArray)
        return _np.asarray(out_arr)


def _sa(a):
    if isinstance(a, _np.ndarray) and a.dtype == object and not isinstance(a, SymArray):
        return a.view(SymArray)
    return a


def _objarr(shape, fill):
    a = _np.empty(shape, dtype=object)
    a.fill(fill)
    return a.view(SymArray)


_MATHNAME = {'arccos': 'acos', 'arcsin': 'asin', 'arctan': 'atan'}


class SymNP(types.ModuleType):
    """np proxy.  Attribute lookups not overridden fall through to real NumPy."""

    def __init__(self, overrides=None):
        super().__init__('symnp')
        self.__dict__['_ov'] = dict(overrides or {})
        for k, v in (overrides or {}).items():
            self.__dict__[k] = v      # instance attribute wins over the class method

    def __getattr__(self, k):
        ov = self.__dict__.get('_ov', {})
        if k in ov:
            return ov[k]
        return getattr(_np, k)

    # ---- constructors --------------------------------------------------
    def zeros(self, shape, dtype=None, **kw):
        if dtype is None or dtype is float or dtype == 'float':
            return _objarr(shape, 0.0)
        return _np.zeros(shape, dtype=dtype, **kw)

    def ones(self, shape, dtype=None, **kw):
        if dtype is None or dtype is float or dtype == 'float':
            return _objarr(shape, 1.0)
        return _np.ones(shape, dtype=dtype, **kw)

    def full(self, shape, fill_value, dtype=None, **kw):
        if dtype is None and isinstance(fill_value, (float, Sym)):
            return _objarr(shape, fill_value)
        return _np.full(shape, fill_value, dtype=dtype, **kw)

    def empty(self, shape, dtype=None, **kw):
        if dtype is None or dtype is float:
            return _objarr(shape, 0.0)
        return _np.empty(shape, dtype=dtype, **kw)

    def zeros_like(self, a, dtype=None, **kw):
        if dtype is None and (not isinstance(a, _np.ndarray) or a.dtype.kind in 'fO'):
            return _objarr(_np.shape(a), 0.0)
        return _np.zeros_like(a, dtype=dtype, **kw)

    def ones_like(self, a, dtype=None, **kw):
        if dtype is None and (not isinstance(a, _np.ndarray) or a.dtype.kind in 'fO'):
            return _objarr(_np.shape(a), 1.0)
        return _np.ones_like(a, dtype=dtype, **kw)

    def array(self, obj, dtype=None, **kw):
        if dtype is None or dtype is float or dtype == 'float':
            if _has_sym(obj):
                return _sa(_np.array(obj, dtype=object, **kw))
            a = _np.array(obj, **kw)
            if a.dtype.kind == 'f':
                return _sa(a.astype(object))
            return a
        return _np.array(obj, dtype=dtype, **kw)

    def asarray(self, obj, dtype=None, **kw):
        if isinstance(obj, _np.ndarray) and dtype is None:
            return obj
        return self.array(obj, dtype=dtype, **kw)

    def identity(self, n, dtype=None):
        if dtype is None:
            a = _objarr((n, n), 0.0)
            for i in range(n):
                a[i, i] = 1.0
            return a
        return _np.identity(n, dtype=dtype)

    def linspace(self, a, b, num=50, **kw):
        if _has_sym([a, b]):
            out = _np.empty(num, dtype=object)
            for i in range(num):
                out[i] = a + (b - a) * i / (num - 1) if num > 1 else a
            return out
        return _np.linspace(a, b, num, **kw).astype(object)

    def append(self, arr, values, axis=None):
        if _has_sym(arr) or _has_sym(values):
            a = _np.asarray(arr, dtype=object)
            if isinstance(values, (Sym,)):
                v = _np.empty(1, dtype=object)
                v[0] = values
            else:
                v = _np.asarray(values, dtype=object)
            return _np.append(a, v, axis=axis)
        return _np.append(arr, values, axis=axis)

    def concatenate(self, arrs, axis=0, **kw):
        return _np.concatenate(arrs, axis=axis, **kw)

    # ---- element-wise math ---------------------------------------------
    def _unary(self, name, x):
        def one(v):
            if isinstance(v, Sym):
                r = core.uf(name.upper())(v.e)
                if name in ('log', 'log10') and core.CTX is not None:
                    # true facts about the logarithm (weak side constraints) and its domain obligation
                    k = (name, r.get_id())
                    if k not in core.CTX._logseen:
                        core.CTX._logseen.add(k)
                        core.CTX.side.append(core.z3.Implies(v.e > 1, r > 0))
                        core.CTX.side.append(core.z3.Implies(core.z3.And(v.e > 0, v.e < 1), r < 0))
                        core.CTX.side.append(core.z3.Implies(v.e == 1, r == 0))
                        core.CTX.domain.append((name, v.e > 0))
                        # strictly increasing on the positive axis: one lemma per pair of applications on this path
                        prev = core.CTX._logs.setdefault(name, [])
                        for (a0, r0) in prev[-12:]:
                            core.CTX.side.append(core.z3.Implies(core.z3.And(a0 > 0, a0 < v.e), r0 < r))
                            core.CTX.side.append(core.z3.Implies(core.z3.And(v.e > 0, v.e < a0), r < r0))
                        prev.append((v.e, r))
                return Sym(r)
            return getattr(math, _MATHNAME.get(name, name))(v)
        if isinstance(x, _np.ndarray):
            if x.dtype != object:
                return getattr(_np, name)(x)
            return _vec(one)(x)
        return one(x)

    def sqrt(self, x):
        if isinstance(x, _np.ndarray):
            if x.dtype != object:
                return _np.sqrt(x)
            return _vec(core.sym_sqrt)(x)
        return core.sym_sqrt(x)

    def log(self, x):
        return self._unary('log', x)

    def log10(self, x):
        return self._unary('log10', x)

    def exp(self, x):
        return self._unary('exp', x)

    def sin(self, x):
        return self._unary('sin', x)

    def cos(self, x):
        return self._unary('cos', x)

    def tan(self, x):
        return self._unary('tan', x)

    def arccos(self, x):
        return self._unary('arccos', x)

    def arcsin(self, x):
        return self._unary('arcsin', x)

    def power(self, x, p):
        if isinstance(x, _np.ndarray) or isinstance(p, _np.ndarray):
            return _np.asarray(x, dtype=object) ** p
        return x ** p

    def abs(self, x):
        if isinstance(x, _np.ndarray):
            if x.dtype != object:
                return _np.abs(x)
            return _vec(abs)(x)
        return abs(x)

    absolute = abs

    def around(self, x, decimals=0):
        if isinstance(x, (list, tuple)):
            x = _np.array(x, dtype=object) if _has_sym(x) else _np.array(x)
        if isinstance(x, _np.ndarray):
            if x.dtype != object:
                return _np.around(x, decimals)
            return _vec(lambda v: core.sym_around(v, decimals))(x)
        return core.sym_around(x, decimals)

    round = around

    def floor(self, x):
        if isinstance(x, _np.ndarray):
            if x.dtype != object:
                return _np.floor(x)
            return _vec(core.sym_floor)(x)
        return core.sym_floor(x)

    def ceil(self, x):
        if isinstance(x, _np.ndarray):
            if x.dtype != object:
                return _np.ceil(x)
            return _vec(core.sym_ceil)(x)
        return core.sym_ceil(x)

    def divide(self, a, b, out=None, where=None, **kw):
        if where is None and out is None and not _has_sym(a) and not _has_sym(b):
            return _np.divide(a, b, **kw)
        a = _np.asarray(a, dtype=object)
        b = _np.asarray(b, dtype=object)
        a, b = _np.broadcast_arrays(a, b)
        res = _objarr(a.shape, 0.0) if out is None else out
        w = _np.broadcast_to(_np.asarray(True if where is None else where), a.shape)
        for idx in _np.ndindex(a.shape):
            wi = w[idx]
            if bool(wi):
                res[idx] = a[idx] / b[idx]
        return res

    # ---- reductions with comparisons -----------------------------------
    def _fold(self, a, pick, axis=None):
        if isinstance(a, (list, tuple)):
            a = _np.array(a, dtype=object) if _has_sym(a) else _np.array(a)
        if not isinstance(a, _np.ndarray):
            return a
        if axis is not None and a.ndim > 1:
            moved = _np.moveaxis(a, axis, -1)
            out = _np.empty(moved.shape[:-1], dtype=object)
            for idx in _np.ndindex(moved.shape[:-1]):
                out[idx] = self._fold(moved[idx], pick)
            return out
        m = None
        for x in a.ravel():
            m = x if m is None else pick(m, x)
        return m

    def max(self, a, axis=None, **kw):
        if isinstance(a, _np.ndarray) and a.dtype != object:
            return _np.max(a, axis=axis, **kw)
        if not _has_sym(a):
            return _np.max(_np.asarray(a, dtype=float), axis=axis, **kw)
        # forking max (keeps the term structure simple on each path)
        return self._fold(a, lambda m, x: x if x > m else m, axis)

    amax = max

    def min(self, a, axis=None, **kw):
        if isinstance(a, _np.ndarray) and a.dtype != object:
            return _np.min(a, axis=axis, **kw)
        if not _has_sym(a):
            return _np.min(_np.asarray(a, dtype=float), axis=axis, **kw)
        return self._fold(a, lambda m, x: x if x < m else m, axis)

    amin = min

    def argmax(self, a, axis=None):
        if not _has_sym(a):
            return _np.argmax(_np.asarray(a, dtype=float) if isinstance(a, _np.ndarray) and a.dtype == object else a, axis=axis)
        if axis is not None:
            return self._along(self.argmax, a, axis, int)
        flat = _np.asarray(a, dtype=object).ravel()
        bi, bm = 0, flat[0]
        for i in range(1, len(flat)):
            if flat[i] > bm:      # strict: first attainment, like numpy
                bi, bm = i, flat[i]
        return bi

    def _along(self, fn, a, axis, dtype=object):
        """Apply a reduction of a 1-d vector along `axis` of an object array."""
        arr = _np.moveaxis(_np.asarray(a, dtype=object), axis, -1)
        out = _np.empty(arr.shape[:-1], dtype=dtype)
        for idx in _np.ndindex(*arr.shape[:-1]):
            out[idx] = fn(arr[idx])
        return out

    def argmin(self, a, axis=None):
        if not _has_sym(a):
            return _np.argmin(a, axis=axis)
        if axis is not None:
            return self._along(self.argmin, a, axis, int)
        flat = _np.asarray(a, dtype=object).ravel()
        bi, bm = 0, flat[0]
        for i in range(1, len(flat)):
            if flat[i] < bm:
                bi, bm = i, flat[i]
        return bi

    def _boolarr(self, c):
        """array of SymBool/bool -> concrete bool array (forks)."""
        if isinstance(c, SymBool):
            return bool(c)
        if isinstance(c, _np.ndarray) and c.dtype == object:
            return _np.array([bool(v) for v in c.ravel()], dtype=bool).reshape(c.shape)
        if isinstance(c, (list, tuple)):
            if any(isinstance(v, (list, tuple, _np.ndarray)) for v in c):
                # nested / ragged (a list of arrays): truth of every element, flattened (what any/all/count need)
                out = []
                for v in c:
                    out.extend(_np.ravel(self._boolarr(v if isinstance(v, (list, tuple)) else _np.asarray(v, dtype=object))).tolist())
                return _np.array(out, dtype=bool)
            return _np.array([bool(v) for v in c], dtype=bool)
        return c

    def where(self, cond, *args):
        return _np.where(self._boolarr(cond), *args)

    def nonzero(self, a):
        return _np.nonzero(self._boolarr(a))

    def count_nonzero(self, a, axis=None):
        if _has_sym(a):
            a = self._boolarr(_np.asarray(a, dtype=object) != 0)
        return _np.count_nonzero(a, axis=axis)

    def any(self, a, axis=None):
        return _np.any(self._boolarr(a) if _has_sym(a) else a, axis=axis)

    def all(self, a, axis=None):
        return _np.all(self._boolarr(a) if _has_sym(a) else a, axis=axis)

    def isnan(self, a):
        if _has_sym(a):
            if isinstance(a, _np.ndarray):
                return _np.zeros(a.shape, dtype=bool)
            return False
        if isinstance(a, _np.ndarray) and a.dtype == object:
            return _np.isnan(a.astype(float))
        return _np.isnan(a)

    def isinf(self, a):
        if _has_sym(a):
            if isinstance(a, _np.ndarray):
                return _np.zeros(a.shape, dtype=bool)
            return False
        if isinstance(a, _np.ndarray) and a.dtype == object:
            return _np.isinf(a.astype(float))
        return _np.isinf(a)

    def isclose(self, a, b, rtol=1e-05, atol=1e-08, **kw):
        if not _has_sym(a) and not _has_sym(b):
            return _np.isclose(_np.asarray(a, dtype=float), _np.asarray(b, dtype=float), rtol=rtol, atol=atol)

        def one(x, y):
            return abs(x - y) <= atol + rtol * abs(y)
        if isinstance(a, _np.ndarray) or isinstance(b, _np.ndarray):
            aa, bb = _np.broadcast_arrays(_np.asarray(a, dtype=object), _np.asarray(b, dtype=object))
            out = _np.empty(aa.shape, dtype=object)
            for idx in _np.ndindex(aa.shape):
                out[idx] = one(aa[idx], bb[idx])
            return out
        return one(a, b)

    def allclose(self, a, b, rtol=1e-05, atol=1e-08, **kw):
        if not _has_sym(a) and not _has_sym(b):
            return _np.allclose(_np.asarray(a, dtype=float), _np.asarray(b, dtype=float), rtol=rtol, atol=atol)
        r = self.isclose(a, b, rtol, atol)
        if isinstance(r, _np.ndarray):
            for v in r.ravel():
                if not v:
                    return False
            return True
        return bool(r)

    def array_equal(self, a, b):
        if not _has_sym(a) and not _has_sym(b):
            return _np.array_equal(a, b)
        a = _np.asarray(a, dtype=object)
        b = _np.asarray(b, dtype=object)
        if a.shape != b.shape:
            return False
        for x, y in zip(a.ravel(), b.ravel()):
            if not (x == y):
                return False
        return True

    def searchsorted(self, a, v, side='left'):
        if not _has_sym(a) and not _has_sym(v):
            return _np.searchsorted(_np.asarray(a, dtype=float), v, side=side)

        def one(x):
            i = 0
            n = len(a)
            if side == 'left':
                while i < n and a[i] < x:
                    i += 1
            else:
                while i < n and a[i] <= x:
                    i += 1
            return i
        if isinstance(v, (_np.ndarray, list, tuple)):
            return _np.array([one(x) for x in v], dtype=int)
        return one(v)

    def sort(self, a, axis=-1, **kw):
        if not _has_sym(a):
            return _np.sort(a, axis=axis, **kw)
        vals = list(_np.asarray(a, dtype=object).ravel())
        # insertion sort with forking comparisons
        out = []
        for x in vals:
            i = len(out)
            while i > 0 and x < out[i - 1]:
                i -= 1
            out.insert(i, x)
        return _np.array(out, dtype=object)

    def argsort(self, a, axis=-1, **kw):
        if not _has_sym(a):
            return _np.argsort(a, axis=axis, **kw)
        vals = list(_np.asarray(a, dtype=object).ravel())
        order = []
        for k, x in enumerate(vals):
            i = len(order)
            while i > 0 and x < vals[order[i - 1]]:
                i -= 1
            order.insert(i, k)
        return _np.array(order, dtype=int)

    def unique(self, a, *args, **kw):
        if not _has_sym(a):
            if isinstance(a, _np.ndarray) and a.dtype == object:
                a = a.astype(float)
            return _np.unique(a, *args, **kw)
        s = self.sort(a)
        out = [s[0]]
        for x in s[1:]:
            if not (x == out[-1]):
                out.append(x)
        return _np.array(out, dtype=object)

    def prod(self, a, axis=None, **kw):
        return _np.multiply.reduce(_np.asarray(a), axis=axis)

    def average(self, a, axis=None, weights=None):
        a = _np.asarray(a)
        if weights is None:
            if a.dtype != object:
                return _np.average(a, axis=axis)
            n = a.shape[axis] if axis is not None else a.size
            return _np.sum(a, axis=axis) / n
        w = _np.asarray(weights)
        if a.dtype != object and w.dtype != object:
            return _np.average(a, axis=axis, weights=w)
        return _np.sum(a * w, axis=axis) / _np.sum(w, axis=axis)

    def mean(self, a, axis=None, **kw):
        return self.average(a, axis=axis)

    def interp(self, x, xp, fp, **kw):
        if not _has_sym(x) and not _has_sym(xp) and not _has_sym(fp):
            return _np.interp(x, _np.asarray(xp, dtype=float), _np.asarray(fp, dtype=float), **kw)
        raise core.Concretised('np.interp on symbolic data needs a harness stub')

    def savetxt(self, *a, **kw):
        return None

    def diagonal(self, a, *args, **kw):
        return _np.diagonal(a, *args, **kw)


@contextlib.contextmanager
def patched(modules, np_proxy=None, extra=None):
    """Install the np proxy (and extra module-global replacements) into `modules`.

    `extra` maps (module, name) -> replacement value.
    """
    np_proxy = np_proxy or SymNP()
    saved = []
    _ACTIVE.append(saved)
    try:
        for m in modules:
            if hasattr(m, 'np'):
                saved.append((m, 'np', m.np))
                m.np = np_proxy
        for (m, name), val in (extra or {}).items():
            saved.append((m, name, getattr(m, name)))
            setattr(m, name, val)
        yield np_proxy
    finally:
        _ACTIVE.remove(saved)
        for m, name, val in reversed(saved):
            setattr(m, name, val)


_ACTIVE = []


@contextlib.contextmanager
def unpatched():
    """Temporarily give every patched module its real NumPy back (construction of concrete fixtures
    inside a symbolic run: cached fixtures must hold plain float arrays, also for the replay)."""
    cur = []
    for saved in _ACTIVE:
        for m, name, val in saved:
            if name == 'np':
                cur.append((m, m.np))
                m.np = val
    try:
        yield
    finally:
        for m, val in cur:
            m.np = val
