"""symx.loops -- lift loop bodies / code segments out of the *current* source of a /repo
function (regenerated from /repo on every run) so that a harness can execute one
iteration, or the code after a loop, from an arbitrary symbolic state.

If the source no longer has the shape the harness expects (no such loop), LoopShapeError
is raised and the obligation is reported inconclusive -- never silently skipped.
"""
import ast
import inspect
import textwrap


class LoopShapeError(Exception):
    pass


def _func_ast(func):
    src = textwrap.dedent(inspect.getsource(func))
    tree = ast.parse(src)
    fdef = tree.body[0]
    if not isinstance(fdef, (ast.FunctionDef,)):
        raise LoopShapeError('not a function: %r' % func)
    return fdef, src


def _loops(fdef, kind):
    out = []

    class V(ast.NodeVisitor):
        def visit_While(self, node):
            if kind in ('while', 'any'):
                out.append(node)
            self.generic_visit(node)

        def visit_For(self, node):
            if kind in ('for', 'any'):
                out.append(node)
            self.generic_visit(node)
    V().visit(fdef)
    return out


def _compile(stmts, func, name, ret_locals=True):
    """Callable `f(L)` that runs `stmts` with the entries of dict L as locals and returns
    the resulting locals.  Compiled lazily per key set (only names present in L become
    locals; everything else resolves in the real module namespace at call time)."""
    cache = {}

    def call(L):
        key = frozenset(L)
        if key not in cache:
            cache[key] = _compile_for(stmts, func, name, key)
        return cache[key](L)
    return call


def _compile_for(stmts, func, name, keys):
    import copy
    stmts = copy.deepcopy(stmts)
    wrapper_src = 'def %s(__L):\n    pass\n' % name
    mod = ast.parse(wrapper_src)
    w = mod.body[0]
    body = []
    names = set()
    for st in stmts:
        for n in ast.walk(st):
            if isinstance(n, ast.Name):
                names.add(n.id)
    for nm in sorted(names & set(keys)):
        body.append(ast.parse("%s = __L[%r]\n" % (nm, nm)).body[0])
    # run statements once; break/continue leave the segment; a `return` inside the
    # segment (outside nested loops) stores its value in __return and leaves
    class R(ast.NodeTransformer):
        depth = 0

        def visit_While(self, node):
            self.depth += 1
            self.generic_visit(node)
            self.depth -= 1
            return node

        visit_For = visit_While

        def visit_FunctionDef(self, node):
            return node

        def visit_Return(self, node):
            if self.depth:
                raise LoopShapeError('return inside a nested loop of the lifted segment')
            val = node.value if node.value is not None else ast.Constant(None)
            return [ast.Assign(targets=[ast.Name(id='__return', ctx=ast.Store())], value=val),
                    ast.Assign(targets=[ast.Name(id='__returned', ctx=ast.Store())], value=ast.Constant(True)),
                    ast.Break()]
    tr = R()
    new_stmts = []
    for st in stmts:
        r = tr.visit(st)
        new_stmts.extend(r if isinstance(r, list) else [r])
    loop = ast.While(test=ast.Constant(True), body=new_stmts + [ast.Break()], orelse=[])
    body.append(loop)
    for line in ("__R = dict(locals())", "__R.pop('__L', None)", "return __R"):
        body.append(ast.parse(line).body[0])
    w.body = [b for b in body if b is not None]
    ast.fix_missing_locations(mod)
    code = compile(mod, '<lifted:%s.%s>' % (func.__module__, func.__qualname__), 'exec')
    glb = func.__globals__      # the real module namespace (np proxy etc. are looked up at call time)
    ns = {}
    exec(code, glb, ns)
    return ns[name]


def while_body(func, index=0):
    """Function executing the body of the index-th `while` loop of `func` once.

    Call as  new_locals = body({'self': obj, 'x': ..., ...}).
    Also returns the loop test as a second function.
    """
    fdef, _ = _func_ast(func)
    ws = _loops(fdef, 'while')
    if len(ws) <= index:
        raise LoopShapeError('%s has %d while loops, wanted #%d' % (func.__qualname__, len(ws), index))
    node = ws[index]
    body_fn = _compile(node.body, func, '__body')
    test_stmt = ast.Assign(targets=[ast.Name(id='__test', ctx=ast.Store())], value=node.test)
    test_fn_all = _compile([test_stmt], func, '__test_fn')

    def test_fn(L):
        return test_fn_all(L)['__test']
    return body_fn, test_fn


def after_loop(func, index=0, kind='while'):
    """Function executing the statements that follow the index-th loop at the same nesting
    level (the epilogue), up to but not including a final `return`.  The return
    expression, if any, is evaluated into '__return'."""
    fdef, _ = _func_ast(func)
    ws = _loops(fdef, kind)
    if len(ws) <= index:
        raise LoopShapeError('%s has %d %s loops, wanted #%d' % (func.__qualname__, len(ws), kind, index))
    node = ws[index]
    # find the statement list containing the loop
    holder = None
    for parent in ast.walk(fdef):
        for field in ('body', 'orelse', 'finalbody'):
            lst = getattr(parent, field, None)
            if isinstance(lst, list) and node in lst:
                holder = lst
    if holder is None:
        raise LoopShapeError('loop container not found')
    rest = holder[holder.index(node) + 1:]
    stmts = []
    for st in rest:
        if isinstance(st, ast.Return):
            if st.value is not None:
                stmts.append(ast.Assign(targets=[ast.Name(id='__return', ctx=ast.Store())], value=st.value))
            break
        stmts.append(st)
    return _compile(stmts, func, '__after')


def before_loop(func, index=0, kind='while'):
    """Function executing the statements that precede the index-th loop (the prologue)."""
    fdef, _ = _func_ast(func)
    ws = _loops(fdef, kind)
    if len(ws) <= index:
        raise LoopShapeError('%s has %d %s loops, wanted #%d' % (func.__qualname__, len(ws), kind, index))
    node = ws[index]
    if node not in fdef.body:
        raise LoopShapeError('loop is not at the top level of the function')
    stmts = [st for st in fdef.body[:fdef.body.index(node)]
             if not (isinstance(st, ast.Expr) and isinstance(st.value, ast.Constant))]
    return _compile(stmts, func, '__before')
