"""symx.harness -- one harness body, two modes.

A harness is a function `body(env)`.  In *symbolic* mode `env.real(...)` returns a
solver variable, the real dassh code runs on `Sym` values under the NumPy shim, and
`env.eq/ge/...` record claims that are discharged by z3 under each path condition.
In *replay* mode the very same body runs with concrete floats taken from a solver
model on the unpatched code (real NumPy, float64) and the claims are evaluated
numerically with a margin: only a counterexample that reproduces this way is ever
reported as a VIOLATION.
"""
import contextlib
import fractions
import json
import math
import os
import sys
import time
import traceback

import numpy as _np
import z3

from . import core, npshim
from .core import Sym, SymBool, toz


class Claim:
    __slots__ = ('name', 'expr', 'kind', 'core', 'meta', 'key', 'lemma', 'hyps', 'atoms')

    def __init__(self, name, expr, kind, core_=True, meta=None, key=None):
        self.lemma = False
        self.hyps = None
        self.atoms = None
        self.name = name
        self.expr = expr
        self.kind = kind
        self.core = core_
        self.meta = meta or {}
        self.key = key or name


class ReplayMismatch(Exception):
    pass


class Outcome(BaseException):
    """Raised by env.stop(): ends the path deliberately (not an error)."""


class Env:
    """Common interface of the two modes."""
    mode = None

    def __init__(self, params=None):
        self.params = dict(params or {})
        self.stubs = []
        self.assumptions_txt = []

    def stub(self, text):
        if text not in self.stubs:
            self.stubs.append(text)

    def assumption(self, text):
        if text not in self.assumptions_txt:
            self.assumptions_txt.append(text)

    # boolean connectives that work in both modes (no fork in symbolic mode)
    @staticmethod
    def land(*cs):
        if any(isinstance(c, SymBool) for c in cs):
            return SymBool(z3.And(*[c.e if isinstance(c, SymBool) else z3.BoolVal(bool(c)) for c in cs]))
        return all(bool(c) for c in cs)

    @staticmethod
    def lor(*cs):
        if any(isinstance(c, SymBool) for c in cs):
            return SymBool(z3.Or(*[c.e if isinstance(c, SymBool) else z3.BoolVal(bool(c)) for c in cs]))
        return any(bool(c) for c in cs)

    @staticmethod
    def lnot(c):
        if isinstance(c, SymBool):
            return SymBool(z3.Not(c.e))
        return not bool(c)

    @staticmethod
    def implies(a, b):
        return Env.lor(Env.lnot(a), b)

    # convenience
    def pos(self, name, actual=None, hi=None, nominal=None):
        return self.real(name, lo=0, hi=hi, actual=actual, nominal=nominal)

    def nonneg(self, name, actual=None, hi=None, nominal=None):
        return self.real(name, lo=0, lo_strict=False, hi=hi, actual=actual, nominal=nominal)

    def vec(self, prefix, n, **kw):
        a = _np.empty(n, dtype=object)
        for i in range(n):
            a[i] = self.real('%s%d' % (prefix, i), **kw)
        if self.mode == 'replay':
            return a.astype(float)
        return a


class SymEnv(Env):
    mode = 'sym'

    def __init__(self, params=None):
        super().__init__(params)
        self.claims = []
        self.inputs = {}       # name -> z3 const
        self.actuals = {}      # name -> float (value of the real constructed object)
        self.nominals = {}     # name -> float (a typical value: only a hint for counterexample replay)
        self.witnesses = []

    @property
    def ctx(self):
        return core.CTX

    def real(self, name, lo=None, hi=None, lo_strict=True, hi_strict=False, actual=None, nominal=None):
        if name in self.inputs:
            raise RuntimeError('duplicate input name ' + name)
        v = z3.Real(name)
        self.inputs[name] = v
        if actual is not None:
            self.actuals[name] = float(actual)
        if nominal is not None:
            self.nominals[name] = float(nominal)
        c = core.CTX
        if lo is not None:
            c.assumptions.append(v > toz(lo) if lo_strict else v >= toz(lo))
        if hi is not None:
            c.assumptions.append(v < toz(hi) if hi_strict else v <= toz(hi))
        return Sym(v)

    def integer(self, name, lo=None, hi=None):
        """Integer-valued input, returned as a Sym real (ToReal of an Int)."""
        if name in self.inputs:
            raise RuntimeError('duplicate input name ' + name)
        v = z3.Int(name)
        self.inputs[name] = v
        c = core.CTX
        if lo is not None:
            c.assumptions.append(v >= int(lo))
        if hi is not None:
            c.assumptions.append(v <= int(hi))
        return Sym(z3.ToReal(v))

    def assume(self, cond):
        if isinstance(cond, SymBool):
            core.CTX.assumptions.append(cond.e)
        elif isinstance(cond, z3.BoolRef):
            core.CTX.assumptions.append(cond)
        elif cond is True or cond is _np.True_:
            pass
        elif cond is False or cond is _np.False_:
            raise core.PathAbort()
        else:
            raise TypeError(type(cond))

    # ---- claims
    def _add(self, name, expr, kind, core_, meta, key):
        self.claims.append(Claim(name, expr, kind, core_, meta, key))

    def eq(self, name, a, b, scale=0.0, core=True, key=None, tol=None):
        self._add(name, toz(a) == toz(b), 'eq', core, None, key)

    def ge(self, name, a, b, scale=0.0, core=True, key=None):
        self._add(name, toz(a) >= toz(b), 'ge', core, None, key)

    def gt(self, name, a, b, scale=0.0, core=True, key=None):
        self._add(name, toz(a) > toz(b), 'gt', core, None, key)

    def le(self, name, a, b, scale=0.0, core=True, key=None):
        self.ge(name, b, a, scale, core, key)

    def lt(self, name, a, b, scale=0.0, core=True, key=None):
        self.gt(name, b, a, scale, core, key)

    def holds(self, name, cond, core=True, key=None):
        """cond: SymBool or python bool (decided concretely on this path)."""
        if isinstance(cond, SymBool):
            self._add(name, cond.e, 'bool', core, None, key)
        else:
            self._add(name, z3.BoolVal(bool(cond)), 'bool', core, None, key)

    def fail(self, name, why='', core=True, key=None):
        """The path reached a state that violates the property outright."""
        self._add(name, z3.BoolVal(False), 'bool', core, {'why': why}, key)

    def lemma(self, name, cond, key=None):
        """An intermediate claim: proved like any other claim and, once proved, available as
        a hypothesis to the claims that follow it on this path (sound lemma chaining)."""
        self.holds(name, cond, key=key)
        self.claims[-1].lemma = True

    def lemma_le(self, name, a, b, key=None):
        """lemma a <= b (in replay mode evaluated with the relative tolerance of `le`)."""
        self.lemma(name, SymBool(toz(a) <= toz(b)), key=key)

    def derive(self, name, cond, hyps, atoms, key=None, lemma=False):
        """Final step of a proof script: `cond` is proved from the listed hypotheses only (each
        must be an assumption of the harness or a claim/lemma made earlier on this path -- the
        framework checks that), with the listed sub-terms replaced by fresh variables
        (abstraction: sound for proofs).  If that small query fails the claim is decided
        the ordinary way under the full path condition."""
        self.holds(name, cond, key=key)
        cl = self.claims[-1]
        cl.hyps = [h.e if isinstance(h, SymBool) else (z3.BoolVal(bool(h)) if isinstance(h, (bool, _np.bool_)) else h) for h in hyps]
        cl.atoms = [toz(a) for a in atoms]
        cl.lemma = lemma

    def patch(self, modules, overrides=None, extra=None, sym_extra=None):
        """`extra`: stubs of the environment ((module, name) -> value) applied in both
        modes; `sym_extra`: replacements that only make sense symbolically (exact
        irrational constants)."""
        ex = dict(extra or {})
        ex.update(sym_extra or {})
        return npshim.patched(modules, npshim.SymNP(overrides), ex)

    def stop(self):
        raise Outcome()


class ReplayEnv(Env):
    mode = 'replay'

    def __init__(self, values, params=None, rel_tol=1e-9):
        super().__init__(params)
        self.values = values      # name -> Fraction/float
        self.results = {}         # claim name -> (held, detail)
        self.rel_tol = rel_tol
        self.used = set()

    def real(self, name, lo=None, hi=None, lo_strict=True, hi_strict=False, actual=None, nominal=None):
        if name not in self.values:
            raise ReplayMismatch('input %s not in model' % name)
        self.used.add(name)
        return float(self.values[name])

    def integer(self, name, lo=None, hi=None):
        if name not in self.values:
            raise ReplayMismatch('input %s not in model' % name)
        return float(int(self.values[name]))

    def assume(self, cond):
        if not bool(cond):
            raise ReplayMismatch('assumption false in replay')

    def _rec(self, name, held, detail):
        if name in self.results:
            raise RuntimeError('duplicate claim ' + name)
        self.results[name] = (bool(held), detail)

    def eq(self, name, a, b, scale=0.0, core=True, key=None, tol=None):
        a, b = float(a), float(b)
        s = max(abs(float(scale)), abs(a), abs(b), 1e-300)
        t = self.rel_tol if tol is None else tol
        self._rec(name, abs(a - b) <= t * s, {'lhs': a, 'rhs': b})

    def ge(self, name, a, b, scale=0.0, core=True, key=None):
        a, b = float(a), float(b)
        s = max(abs(float(scale)), abs(a), abs(b), 1e-300)
        self._rec(name, a >= b - self.rel_tol * s, {'lhs': a, 'rhs': b})

    def gt(self, name, a, b, scale=0.0, core=True, key=None):
        a, b = float(a), float(b)
        self._rec(name, a > b, {'lhs': a, 'rhs': b})

    def le(self, name, a, b, scale=0.0, core=True, key=None):
        self.ge(name, b, a, scale, core, key)

    def lt(self, name, a, b, scale=0.0, core=True, key=None):
        self.gt(name, b, a, scale, core, key)

    def holds(self, name, cond, core=True, key=None):
        self._rec(name, bool(cond), {})

    def fail(self, name, why='', core=True, key=None):
        self._rec(name, False, {'why': why})

    def lemma(self, name, cond, key=None):
        self.holds(name, cond)

    def lemma_le(self, name, a, b, key=None):
        self.le(name, a, b)

    def derive(self, name, cond, hyps, atoms, key=None, lemma=False):
        self.holds(name, cond, key=key)

    @contextlib.contextmanager
    def patch(self, modules, overrides=None, extra=None, sym_extra=None):
        # unpatched code: real NumPy.  Only the environment stubs (`extra`) are applied.
        saved = []
        try:
            for (m, name), val in (extra or {}).items():
                saved.append((m, name, getattr(m, name)))
                setattr(m, name, val)
            yield _np
        finally:
            for m, name, val in reversed(saved):
                setattr(m, name, val)

    def stop(self):
        raise Outcome()


# --------------------------------------------------------------------------
def _frac_to_json(fr):
    return {'float': float(fr), 'num': str(fr.numerator), 'den': str(fr.denominator)}


def _model_inputs(model, inputs):
    vals = {}
    for name, v in inputs.items():
        vals[name] = core.model_value(model, v)
    return vals


def _run_body(body, env):
    try:
        body(env)
    except Outcome:
        pass


def replay_once(body, values, params, claim_name, rel_tol=1e-9, timeout_s=60):
    """Run body concretely.  Returns ('violated'|'held'|'missing'|'error', detail)."""
    env = ReplayEnv(values, params, rel_tol)
    saved = core.CTX
    core.set_ctx(None)
    import signal

    def _alarm(signum, frame):
        raise TimeoutError('replay exceeded %ss (treated as hang)' % timeout_s)
    old = signal.signal(signal.SIGALRM, _alarm)
    signal.alarm(int(timeout_s))
    try:
        try:
            _run_body(body, env)
        finally:
            signal.alarm(0)
            signal.signal(signal.SIGALRM, old)
    except ReplayMismatch as ex:
        return 'error', {'mismatch': str(ex)}
    except (Exception, SystemExit) as ex:
        # an exception in replay is an outcome: claims recorded before it count
        env.results.setdefault('__exception__', (False, {'exc': repr(ex)[:300]}))
    finally:
        core.set_ctx(saved)
    if claim_name in env.results:
        held, detail = env.results[claim_name]
        return ('held' if held else 'violated'), detail
    return 'missing', {'claims_seen': sorted(env.results)[:20],
                       'failed_seen': {k: _jsonable(v[1]) for k, v in list(env.results.items())[:40] if not v[0]},
                       'exc': env.results.get('__exception__', (None, {}))[1]}


def run_instance(body, params=None, label='', max_paths=256, max_depth=64,
                 timeout_ms=None, trace=True, rel_tol=1e-9, replay_dir=None,
                 prop='C00', check_vacuity=True, stop_after_violation=True):
    """Explore one harness instance symbolically and decide all its claims.

    Returns a JSON-serialisable dict.
    """
    t0 = time.time()
    params = dict(params or {})
    rec = {'label': label, 'params': _jsonable(params), 'paths': 0, 'cut_paths': 0,
           'exc_paths': 0, 'claims': 0, 'unsat': 0, 'sat': 0, 'unknown': 0,
           'violations': [], 'inconclusive': [], 'best_effort_open': [],
           'functions': [], 'stubs': [], 'assumptions': [], 'samples': [],
           'vacuous_paths': 0, 'distinct': 0, 'errors': []}
    funcs = set()
    envs = []

    def fn():
        env = SymEnv(params)
        envs.append(env)
        env.exc = None
        try:
            _run_body(body, env)
        except (Exception, SystemExit) as ex:
            env.exc = ex
            env.exc_tb = traceback.format_exc()[-1200:]
        return env

    def prof(frame, event, arg):
        if event == 'call':
            co = frame.f_code
            fnm = co.co_filename
            if '/dassh/' in fnm:
                funcs.add(os.path.basename(fnm)[:-3] + '.' + co.co_qualname)
    before = dict(core.STATS)
    first = [True]

    def fn_traced():
        if trace and first[0]:
            first[0] = False
            sys.setprofile(prof)
            try:
                return fn()
            finally:
                sys.setprofile(None)
        return fn()

    try:
        paths, info = core.explore(fn_traced, (), max_paths=max_paths, max_depth=max_depth, catch=())
    except core.Concretised as ex:
        rec['errors'].append('concretised: ' + str(ex) + ' ' + traceback.format_exc()[-800:])
        rec['wall_s'] = time.time() - t0
        return rec
    except Exception as ex:
        rec['errors'].append('harness error: ' + repr(ex) + ' ' + traceback.format_exc()[-1500:])
        rec['wall_s'] = time.time() - t0
        return rec
    rec['paths'] = len(paths)
    rec['aborted_paths'] = info['aborted']
    if info['truncated']:
        rec['inconclusive'].append({'claim': '*', 'why': 'path budget %d exceeded' % max_paths})
    seen = set()
    # envs are appended once per executed path, in execution order; paths that
    # aborted have no Path object.  Match by identity through Path.result / exc.
    for p in paths:
        if p.cut:
            rec['cut_paths'] += 1
            continue
        env = p.result
        if env.exc is not None:
            # uncaught exception inside the harness body (not an Outcome)
            rec['exc_paths'] += 1
            if len(rec['errors']) < 5:
                rec['errors'].append('exception on path: %r\n%s' % (env.exc, env.exc_tb))
        for s in env.stubs:
            if s not in rec['stubs']:
                rec['stubs'].append(s)
        for s in env.assumptions_txt:
            if s not in rec['assumptions']:
                rec['assumptions'].append(s)
        if check_vacuity:
            r, _m = core.check_sat(p.pc, timeout_ms=20000)
            if r == 'unsat':
                rec['vacuous_paths'] += 1
                continue
        hyps = []          # lemmas proved so far on this path
        proved_ids = set() # ids of every claim proved so far on this path
        keep = []
        for cl in env.claims:
            rec['claims'] += 1
            if z3.is_true(z3.simplify(cl.expr)):
                res, model = 'unsat', None
                core.STATS['queries'] += 1
                core.STATS['unsat'] += 1
            else:
                res = None
                if cl.hyps is not None:
                    # proof-script step: only the listed hypotheses, each of which must be known
                    known = set(h.get_id() for h in hyps) | set(c.get_id() for c in p.pc) | proved_ids
                    if all(h.get_id() in known or z3.is_true(z3.simplify(h)) for h in cl.hyps):
                        r0, _m0 = core.prove_abstract(cl.hyps, cl.expr, cl.atoms, 20000)
                        if r0 == 'unsat':
                            res, model = 'unsat', None
                    else:
                        rec['errors'].append('derive step %r uses a hypothesis that was not established' % cl.name)
                if res is None and getattr(p, 'pc_base', None) is not None:
                    # identities do not need the branch decisions of the path: try without them first (sound: fewer
                    # assumptions can only turn unsat into sat/unknown; only unsat is accepted here)
                    r0, _m0 = core.prove(list(p.pc_base) + hyps, cl.expr, 8000)
                    if r0 == 'unsat':
                        res, model = 'unsat', None
                if res is None and p.pc_weak is not None:
                    # abstraction ladder: first without the nonlinear defining equations
                    r0, _m0 = core.prove(list(p.pc_weak) + hyps, cl.expr, min(timeout_ms or 60000, 20000))
                    if r0 == 'unsat':
                        res, model = 'unsat', None
                if res is None:
                    res, model = core.prove(list(p.pc) + hyps, cl.expr, timeout_ms)
                    if res == 'unknown' and cl.core:
                        # one retry with four times the budget (solver time-outs depend on the machine load; a claim that
                        # stays undecided is reported as inconclusive, never as held)
                        res, model = core.prove(list(p.pc) + hyps, cl.expr, 4 * (timeout_ms or 60000))
                        rec['retries'] = rec.get('retries', 0) + 1
            if res == 'unsat':
                proved_ids.add(cl.expr.get_id())
                keep.append(cl.expr)
            if cl.lemma and res == 'unsat':
                hyps.append(cl.expr)
            rec[res] += 1
            sk = cl.expr.sexpr() if len(seen) < 200000 else None
            if sk is not None and hash(sk) not in seen:
                seen.add(hash(sk))
                if not z3.is_true(z3.simplify(cl.expr)):
                    rec['distinct'] += 1
            if len(rec['samples']) < 3 and res == 'unsat' and not z3.is_true(z3.simplify(cl.expr)):
                s = cl.expr.sexpr()
                rec['samples'].append({'instance': label, 'claim': cl.name, 'verdict': res,
                                       'path_forks': len(p.decisions),
                                       'assertion': s if len(s) < 600 else s[:600] + ' ...'})
            if res == 'unknown' and (env.actuals or env.nominals) and all(
                    k in env.actuals or k in env.nominals for k in env.inputs):
                # the solver could not decide; evaluate the claim at the constructed state with nominal values
                # (a concrete point of the input space): a failure there is a real counterexample
                pt = {k: fractions.Fraction(repr(float(env.nominals.get(k, env.actuals.get(k))))) for k in env.inputs}
                st, detail = replay_once(body, pt, params, cl.name, rel_tol)
                if st == 'violated':
                    res = 'sat'
                    rec['unknown'] -= 1
                    rec['sat'] += 1
                    v = {'claim': cl.name, 'key': cl.key, 'kind': cl.kind, 'status': 'reproduced', 'label': label,
                         'how': 'solver unknown; violated at the constructed state with nominal values', 'detail': detail,
                         'inputs': {k: float(x) for k, x in list(pt.items())[:40]}}
                    if replay_dir:
                        os.makedirs(replay_dir, exist_ok=True)
                        fnm = os.path.join(replay_dir, _safe('%s__%s' % (label, cl.name)) + '.json')
                        with open(fnm, 'w') as f:
                            json.dump({'property': prop, 'instance': label, 'params': _jsonable(params), 'claim': cl.name,
                                       'key': cl.key, 'inputs': {k: _frac_to_json(x) for k, x in pt.items()},
                                       'observed': detail}, f, indent=1)
                        v['replay'] = fnm
                    (rec['violations'] if cl.core else rec['best_effort_open']).append(v)
            if res == 'unknown':
                (rec['inconclusive'] if cl.core else rec['best_effort_open']).append(
                    {'claim': cl.name, 'why': 'solver unknown/timeout'})
            elif res == 'sat':
                v = _confirm(body, params, env, p, cl, model, rel_tol, timeout_ms)
                v['label'] = label
                if v['status'] == 'reproduced':
                    if replay_dir:
                        os.makedirs(replay_dir, exist_ok=True)
                        fnm = os.path.join(replay_dir, _safe('%s__%s' % (label, cl.name)) + '.json')
                        with open(fnm, 'w') as f:
                            json.dump({'property': prop, 'instance': label, 'params': _jsonable(params),
                                       'claim': cl.name, 'key': cl.key, 'inputs': {
                                           k: _frac_to_json(x) for k, x in v['values'].items()},
                                       'observed': v.get('detail')}, f, indent=1)
                        v['replay'] = fnm
                    v.pop('values', None)
                    # a counterexample that reproduces on the real code is a violation whether or not the claim is one the
                    # solver is expected to decide ("best effort" only means that unknown / unreproduced is not inconclusive)
                    rec['violations'].append(v)
                else:
                    v.pop('values', None)
                    (rec['inconclusive'] if cl.core else rec['best_effort_open']).append(
                        {'claim': cl.name, 'why': 'solver counterexample did not reproduce on the real code: %s' % v.get('why', ''),
                         'detail': v.get('detail')})
        if rec['violations'] and stop_after_violation:
            break
    if check_vacuity and rec['paths'] and rec['vacuous_paths'] + rec['cut_paths'] + rec['exc_paths'] >= rec['paths']:
        rec['errors'].append('no satisfiable completed path (vacuous harness)')
    if rec['paths'] == 0:
        rec['errors'].append('no feasible path')
    rec['functions'] = sorted(funcs)
    after = core.STATS
    rec['solver_s'] = after['solver_s'] - before['solver_s']
    rec['forks'] = after['forks'] - before['forks']
    rec['feas_queries'] = after['feas_queries'] - before['feas_queries']
    rec['rlimit'] = after['rlimit'] - before['rlimit']
    rec['wall_s'] = time.time() - t0
    return rec


def _confirm(body, params, env, path, cl, model, rel_tol, timeout_ms):
    """Turn a sat model into a reproduced violation (or not)."""
    out = {'claim': cl.name, 'key': cl.key, 'kind': cl.kind}
    tried = []
    # stage A: the model as it is, but with the actual (constructed) values for the
    # abstract state where the harness supplied them.
    try:
        vals = _model_inputs(model, env.inputs)
    except Exception as ex:
        out.update(status='not_reproduced', why='model evaluation failed: %r' % ex)
        return out
    cands = []
    if env.actuals:
        pinned = dict(vals)
        for k, a in env.actuals.items():
            pinned[k] = fractions.Fraction(repr(float(a)))
        if env.nominals:
            nom = dict(pinned)
            for k, a in env.nominals.items():
                nom[k] = fractions.Fraction(repr(float(a)))
            cands.append(('actual-state+nominal-values', nom))
        cands.append(('model+actual-state', pinned))
        # stage B: re-solve with the abstract state pinned to the actual values
        cons = list(path.pc) + [z3.Not(cl.expr)] + [
            env.inputs[k] == z3.RealVal(fractions.Fraction(repr(float(a))))
            for k, a in env.actuals.items() if z3.is_real(env.inputs[k])]
        r, m2 = core.check_sat(cons, timeout_ms or 30000)
        if r == 'sat':
            try:
                cands.insert(0, ('resolved-with-actual-state', _model_inputs(m2, env.inputs)))
            except Exception:
                pass
    if not env.actuals:
        if env.nominals:
            # a counterexample close to the typical input: pin as many inputs as possible to their nominal value
            # (greedy; every step is a solver query), so that parts of the program the claim does not depend on
            # see an ordinary input when the counterexample is replayed
            base = list(path.pc) + [z3.Not(cl.expr)]
            fixed = []
            m_near = None
            for k, a in env.nominals.items():
                if k not in env.inputs or not z3.is_real(env.inputs[k]):
                    continue
                c = env.inputs[k] == z3.RealVal(fractions.Fraction(repr(float(a))))
                r, m2 = core.check_sat(base + fixed + [c], 5000)
                if r == 'sat':
                    fixed.append(c)
                    m_near = m2
            if m_near is not None:
                try:
                    cands.append(('model-near-nominal', _model_inputs(m_near, env.inputs)))
                except Exception:
                    pass
        cands.append(('model', vals))
    else:
        # the harness runs from an abstract pre-state (DESIGN 2.5): a counterexample that cannot be
        # realised with the state the real constructors produce means the invariant is too weak --
        # it is reported as inconclusive (exit 2), never as a violation
        out['abstract_only'] = True
    alt = None
    for how, v in cands:
        st, detail = replay_once(body, v, params, cl.name, rel_tol)
        tried.append((how, st))
        if os.environ.get('VERIF_DEBUG_CEX'):
            print('CEX', cl.name, how, st, {k: float(x) for k, x in v.items()}, str(detail)[:300], flush=True)
        if st == 'violated':
            out.update(status='reproduced', how=how, detail=detail, values=v,
                       inputs={k: float(x) for k, x in list(v.items())[:40]})
            return out
        if st == 'missing' and detail.get('failed_seen') and not out.get('abstract_only') and alt is None:
            alt = (how, v, detail)
    if alt is not None:
        # the real code does not reach the claim at the solver's inputs (for instance: an exception in exact arithmetic is a
        # NaN in floating point) but other claims of the same instance fail there: the counterexample is real, it shows differently
        how, v, detail = alt
        out.update(status='reproduced', how=how + ' (claim not reached in the float run; failing there: %s)' % ', '.join(list(detail['failed_seen'])[:3]),
                   detail={'failed_on_real_code': detail['failed_seen'], 'exc': detail.get('exc')}, values=v,
                   inputs={k: float(x) for k, x in list(v.items())[:40]})
        return out
    out.update(status='not_reproduced', why=str(tried) + (' (counterexample exists only for an abstract pre-state; '
               'not realisable with the constructed geometry)' if out.get('abstract_only') else ''), detail=detail)
    return out


def _safe(s):
    return ''.join(ch if ch.isalnum() or ch in '-_.' else '_' for ch in s)[:150]


def _jsonable(o):
    if isinstance(o, dict):
        return {str(k): _jsonable(v) for k, v in o.items()}
    if isinstance(o, (list, tuple)):
        return [_jsonable(v) for v in o]
    if isinstance(o, (int, float, str, bool)) or o is None:
        return o
    if isinstance(o, fractions.Fraction):
        return float(o)
    if isinstance(o, _np.generic):
        return o.item()
    return repr(o)
