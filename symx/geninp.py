"""Generate DASSH input files + user-power CSV for fixtures (real DASSH_Input / Reactor)."""
import os

import numpy as np


def asm_index(ring, pos):
    """0-based assembly id used in the user-power CSV for (ring, position) (1-based)."""
    return 0 if ring == 1 else 3 * (ring - 2) * (ring - 1) + pos


def default_asm(n=2, P=0.0085, D=0.0070, Dw=0.001, ftf=(0.026, 0.028), **kw):
    d = dict(n=n, P=P, D=D, Dw=Dw, ftf=list(ftf))
    d.update(kw)
    return d


def write_case(d, asms, assign, gap_model='flow', core_len=0.4, pitch=0.030, setup_lines=(),
               n_terms=2, power_cells=None, units=None, orificing=None, extra_sections=(),
               bypass_fraction=0.05, materials_extra=(), total_power=None, power_scale=None,
               pin_power=lambda k: 1000.0 * (1 + 0.1 * k), other_power=10.0, coolant='na_fixed'):
    """asms: name -> dict(n, P, D, Dw, ftf, [lowfid], [axial: list of (name, z_lo, z_hi, vf)],
    [extra: list of raw lines at assembly level]); assign: list of (name, ring, pos, bc) where bc is a
    string such as 'FLOWRATE=0.5'.  Lengths in the file are written in `units['length']` if given
    (values passed in are always SI and converted on the way out)."""
    os.makedirs(d, exist_ok=True)
    lf = {'m': 1.0, 'cm': 100.0, 'mm': 1000.0, 'in': 100 / 2.54, 'ft': 100 / 2.54 / 12}[(units or {}).get('length', 'm')]

    def L(x):
        return repr(float(x) * lf)
    lines = ['[Setup]', '    calc_energy_balance = True'] + ['    ' + s for s in setup_lines]
    if units:
        lines += ['    [[Units]]'] + ['        %s = %s' % (k, v) for k, v in units.items()]
    lines += ['[Materials]', '    [[na_fixed]]', '        thermal_conductivity = 75.0',
              '        heat_capacity = 1275.0', '        density = 850.0', '        viscosity = 0.00025',
              '    [[ss_fixed]]', '        thermal_conductivity = 25.0']
    lines += ['    ' + s for s in materials_extra]
    lines += ['[Power]', '    user_power = power.csv']
    if total_power is not None:
        lines.append('    total_power = %r' % total_power)
    if power_scale is not None:
        lines.append('    power_scaling_factor = %r' % power_scale)
    tin = {'kelvin': 623.15, 'celsius': 350.0, 'fahrenheit': 662.0}[(units or {}).get('temperature', 'kelvin').lower()]
    lines += ['[Core]', '    coolant_inlet_temp = %r' % tin, '    coolant_material = %s' % coolant,
              '    length = ' + L(core_len), '    assembly_pitch = ' + L(pitch),
              '    gap_model = %s' % gap_model, '    bypass_fraction = %r' % bypass_fraction, '[Assembly]']
    for n, a in asms.items():
        lines += ['    [[%s]]' % n, '        num_rings = %d' % a['n'], '        pin_pitch = ' + L(a['P']),
                  '        pin_diameter = ' + L(a['D']), '        clad_thickness = ' + L(a.get('clad', 0.0003)),
                  '        wire_pitch = ' + L(a.get('H', 0.15)), '        wire_diameter = ' + L(a['Dw']),
                  '        duct_ftf = ' + ', '.join(L(x) for x in a['ftf']),
                  '        duct_material = %s' % a.get('duct_material', 'ss_fixed'),
                  '        corr_mixing = %s' % a.get('mix', 'MIT'), '        corr_friction = %s' % a.get('ff', 'NOV'),
                  '        corr_flowsplit = %s' % a.get('fs', 'NOV')]
        if a.get('lowfid'):
            lines += ['        use_low_fidelity_model = True', '        low_fidelity_model = %s' % a['lowfid'],
                      '        convection_factor = %s' % a.get('convection_factor', 0.8)]
        lines += ['        ' + s for s in a.get('extra', ())]
        if a.get('axial'):
            lines.append('        [[[AxialRegion]]]')
            for (rn, zlo, zhi, vf) in a['axial']:
                lines += ['            [[[[%s]]]]' % rn, '                z_lo = ' + L(zlo), '                z_hi = ' + L(zhi),
                          '                vf_coolant = %r' % vf]
                lines += ['                ' + s for s in a.get('axial_extra', {}).get(rn, ())]
        lines += ['        ' + s for s in a.get('subsections', ())]
    lines += ['[Assignment]', '    [[ByPosition]]']
    for (n, r, p, bc) in assign:
        # p: one position, or (first, last) for an assignment line spanning several positions of the ring
        p1, p2 = p if isinstance(p, tuple) else (p, p)
        lines.append('        %s = %d, %d, %d, %s' % (n, r, p1, p2, bc))
    if orificing:
        lines += ['[Orificing]'] + ['    ' + s for s in orificing]
    lines += list(extra_sections)
    with open(os.path.join(d, 'input.txt'), 'w') as f:
        f.write('\n'.join(lines) + '\n')
    # power csv: asm id, component (1 pins, 2 duct, 3 coolant), z_lo, z_hi (m), index, coefficients (W/m^i)
    cells = power_cells or [(0.0, core_len)]
    rows = []
    for (n, r, p, bc) in assign:
      p1, p2 = p if isinstance(p, tuple) else (p, p)
      for pp in range(p1, p2 + 1):
        a = asms[n]
        aid = asm_index(r, pp) + 1          # the reader wants base-1 assembly ids
        npin = 3 * a['n'] * (a['n'] - 1) + 1
        nsc = 6 * (a['n'] ** 2 - a['n'] + 1)
        nd = 6 * a['n'] * (len(a['ftf']) // 2)
        for ci, (zlo, zhi) in enumerate(cells):
            for comp, cnt in ((1, npin), (2, nd), (3, nsc)):
                for k in range(cnt):
                    if comp == 1:
                        try:
                            c0 = pin_power(k, ci)          # optional second argument: index of the axial power cell
                        except TypeError:
                            c0 = pin_power(k)
                    else:
                        c0 = other_power
                    rows.append([aid, comp, zlo, zhi, k + 1, c0] + [0.0] * (n_terms - 1))
    np.savetxt(os.path.join(d, 'power.csv'), np.array(rows), delimiter=',', fmt='%.12g')
    return os.path.join(d, 'input.txt')
