"""symx.runner -- run the instances of one property's check on all cores, aggregate,
apply the known-findings file, write evidence, print the interface lines, exit."""
import argparse
import json
import multiprocessing as mp
import os
import re
import subprocess
import sys
import time

from . import core, harness

VERIF = os.path.dirname(os.path.dirname(os.path.abspath(__file__)))
KNOWN = os.path.join(VERIF, 'known_findings.json')
# evidence and replay files go to /verif; a run against a scratch tree (VERIF_REPO, seeded changes) writes them elsewhere
OUT = (os.environ.get('VERIF_REPO') and os.environ.get('VERIF_OUT')) or VERIF

_INST = []
_OPTS = {}


def _work(i):
    inst = _INST[i]
    try:
        if inst.get('kind') == 'custom':
            # custom instance: callable returning a record like run_instance
            t0 = time.time()
            rec = inst['fn'](inst.get('params', {}), _OPTS)
            rec.setdefault('label', inst['label'])
            rec.setdefault('wall_s', time.time() - t0)
            return i, rec
        rec = harness.run_instance(
            inst['body'], inst.get('params'), inst['label'],
            max_paths=inst.get('max_paths', 256), max_depth=inst.get('max_depth', 64),
            timeout_ms=inst.get('timeout_ms', _OPTS.get('timeout_ms')),
            rel_tol=inst.get('rel_tol', 1e-9),
            replay_dir=os.path.join(OUT, 'replays', _OPTS['prop']), prop=_OPTS['prop'],
            check_vacuity=inst.get('check_vacuity', True))
        rec['queries_total'] = rec['unsat'] + rec['sat'] + rec['unknown']
        return i, rec
    except BaseException as ex:        # noqa
        import traceback
        return i, {'label': inst['label'], 'errors': ['worker crashed: %r %s' % (ex, traceback.format_exc()[-1500:])],
                   'violations': [], 'inconclusive': [], 'paths': 0, 'claims': 0, 'unsat': 0, 'sat': 0,
                   'unknown': 0, 'samples': [], 'functions': [], 'stubs': [], 'assumptions': [],
                   'best_effort_open': [], 'distinct': 0, 'wall_s': 0.0}


def load_known(prop):
    if not os.path.exists(KNOWN):
        return []
    with open(KNOWN) as f:
        d = json.load(f)
    return [k for k in d.get('known', []) if k.get('property') == prop]


def _match(known, v):
    for k in known:
        if k.get('key') != v.get('key'):
            continue
        pat = k.get('instance')
        if pat and not re.search(pat, v.get('label', '')):
            continue
        return k
    return None


def repo_head():
    try:
        h = subprocess.run(['git', '-C', '/repo', 'rev-parse', '--short', 'HEAD'], capture_output=True, text=True).stdout.strip()
        d = subprocess.run(['git', '-C', '/repo', 'status', '--porcelain', '--', 'dassh'], capture_output=True, text=True).stdout.strip()
        return h + ('+dirty' if d else '')
    except Exception:
        return 'unknown'


def run_check(prop, instances, tier, explanation, bounds, outside, level_assumptions=(),
              nproc=None, timeout_ms=60000, rule=None):
    """instances: list of dict(label, body, params, [max_paths, max_depth, ...])."""
    global _INST, _OPTS
    t0 = time.time()
    seed = int(os.environ.get('VERIF_SEED', '0') or 0)
    _INST = list(instances)
    if seed:
        # the seed only permutes the order in which instances are sharded
        import random
        random.Random(seed).shuffle(_INST)
    _OPTS = {'prop': prop, 'tier': tier, 'timeout_ms': timeout_ms}
    nproc = nproc or min(int(os.environ.get('VERIF_NPROC', '16')), max(1, len(_INST)))
    recs = [None] * len(_INST)
    if nproc == 1 or len(_INST) == 1:
        for i in range(len(_INST)):
            _, recs[i] = _work(i)
    else:
        ctx = mp.get_context('fork')
        # watchdog: if no instance finishes for this long the run is cut (the unfinished instances are reported as not
        # terminated -> exit 2, nothing claimed) instead of hanging for ever on code that loops
        stall = float(os.environ.get('VERIF_STALL_S', '900' if tier == 'quick' else '3600'))
        with ctx.Pool(nproc, maxtasksperchild=8) as pool:
            it = pool.imap_unordered(_work, range(len(_INST)))
            while True:
                try:
                    i, rec = it.next(timeout=stall)
                except StopIteration:
                    break
                except mp.TimeoutError:
                    for j in range(len(recs)):
                        if recs[j] is None:
                            recs[j] = {'label': _INST[j]['label'], 'paths': 0, 'claims': 0, 'unsat': 0, 'sat': 0, 'unknown': 0, 'distinct': 0,
                                       'cut_paths': 0, 'solver_s': 0.0, 'forks': 0, 'feas_queries': 0, 'rlimit': 0, 'wall_s': stall,
                                       'violations': [], 'inconclusive': [], 'best_effort_open': [], 'samples': [], 'functions': [], 'stubs': [],
                                       'assumptions': [], 'errors': ['no instance finished within %.0f s: instance did not terminate (or is among those still running)' % stall]}
                    pool.terminate()
                    break
                recs[i] = rec
                if os.environ.get('VERIF_PROGRESS'):
                    print('[done %d/%d] %s %.1fs unsat=%s sat=%s unknown=%s' % (
                        sum(1 for x in recs if x is not None), len(recs), rec.get('label'), rec.get('wall_s', 0.0),
                        rec.get('unsat'), rec.get('sat'), rec.get('unknown')), file=sys.stderr, flush=True)
    known = load_known(prop)
    tot = {'instances': len(recs), 'paths': 0, 'claims': 0, 'unsat': 0, 'sat': 0, 'unknown': 0,
           'distinct': 0, 'cut_paths': 0, 'solver_s': 0.0, 'forks': 0, 'feas_queries': 0, 'rlimit': 0}
    funcs, stubs, assum, samples = set(), [], list(level_assumptions), []
    viol, incon, errors, besteff, knownhit = [], [], [], [], []
    for r in recs:
        for k in ('paths', 'claims', 'unsat', 'sat', 'unknown', 'distinct', 'cut_paths', 'forks', 'feas_queries', 'rlimit'):
            tot[k] += int(r.get(k, 0) or 0)
        tot['solver_s'] += float(r.get('solver_s', 0.0) or 0.0)
        funcs.update(r.get('functions', []))
        for s in r.get('stubs', []):
            if s not in stubs:
                stubs.append(s)
        for s in r.get('assumptions', []):
            if s not in assum:
                assum.append(s)
        for s in r.get('samples', []):
            if len(samples) < 6:
                samples.append(s)
        for e in r.get('errors', []):
            errors.append({'instance': r.get('label'), 'error': e})
        for v in r.get('inconclusive', []):
            incon.append(dict(v, instance=r.get('label')))
        for v in r.get('best_effort_open', []):
            besteff.append(dict(v, instance=r.get('label')))
        for v in r.get('violations', []):
            v = dict(v)
            v.setdefault('label', r.get('label'))
            k = _match(known, v)
            if k is not None:
                knownhit.append((k, v))
            else:
                viol.append(v)
    wall = time.time() - t0
    # ------------------------------------------------------------ evidence
    ev = {
        'property_id': prop, 'tier': tier, 'seed': seed, 'level': 'other',
        'coverage': {
            'explanation': explanation,
            'evaluations': tot['unsat'] + tot['sat'] + tot['unknown'],
            'distinct_nontrivial': tot['distinct'],
            'rule': rule or ('one evaluation = one SMT query (negated claim under one path condition of the '
                             'symbolically executed real code); distinct_nontrivial counts syntactically distinct '
                             'claim formulas that do not simplify to true'),
            'samples': samples or [{'note': 'no non-trivial query discharged'}],
            'functions_encoded': sorted(funcs),
            'bounds': bounds, 'outside_bounds': outside,
            'instances': tot['instances'], 'paths': tot['paths'], 'paths_cut_by_depth_budget': tot['cut_paths'],
            'claims': tot['claims'],
            'queries': {'unsat': tot['unsat'], 'sat': tot['sat'], 'unknown': tot['unknown'],
                        'feasibility_queries_at_forks': tot['feas_queries'], 'forks': tot['forks']},
            'solver_seconds': round(tot['solver_s'], 3), 'solver_rlimit_units': tot['rlimit'],
            'stubs': stubs,
            'inconclusive': incon[:50], 'best_effort_open': besteff[:50], 'harness_errors': errors[:20],
            'known_findings_reproduced': [k.get('key') for k, _ in knownhit],
            'known_finding_instances': sorted(set(v.get('label') for _k, v in knownhit))[:400],
            'violating_instances': sorted(set('%s :: %s' % (v.get('label'), v.get('key')) for v in viol))[:400],
            'per_instance': [{'label': r.get('label'), 'paths': r.get('paths'), 'claims': r.get('claims'),
                              'unsat': r.get('unsat'), 'sat': r.get('sat'), 'unknown': r.get('unknown'),
                              'wall_s': round(float(r.get('wall_s', 0.0)), 2)} for r in recs][:400],
            'repo_head': repo_head(), 'z3': __import__('z3').get_version_string(),
        },
        'assumptions': assum,
        'wall_s': round(wall, 2),
        'violations': len(viol),
    }
    os.makedirs(os.path.join(OUT, 'evidence'), exist_ok=True)
    with open(os.path.join(OUT, 'evidence', prop + '.json'), 'w') as f:
        json.dump(ev, f, indent=1, default=str)
    # ------------------------------------------------------------ interface
    seenk = set()
    for k, v in knownhit:
        if k['key'] in seenk:
            continue
        seenk.add(k['key'])
        print('KNOWN-FINDING: property=%s %s' % (prop, k.get('what', k['key'])))
    for k in known:
        if k['key'] not in seenk and k.get('expect', True):
            # a listed finding that no longer reproduces: not an alarm, but say so
            print('note: known finding %s did not reproduce in this run' % k['key'])
    print('%s %s: instances=%d paths=%d claims=%d unsat=%d sat=%d unknown=%d solver=%.1fs wall=%.1fs' % (
        prop, tier, tot['instances'], tot['paths'], tot['claims'], tot['unsat'], tot['sat'], tot['unknown'],
        tot['solver_s'], wall))
    if viol:
        for v in viol[:10]:
            print('  violated: instance=%s claim=%s how=%s detail=%s' % (v.get('label'), v.get('claim'), v.get('how'), json.dumps(v.get('detail'), default=str)[:300]))
        for v in viol[:3]:
            print('VIOLATION property=%s replay=%s' % (prop, v.get('replay')))
        sys.stdout.flush()
        sys.exit(1)
    if errors or incon:
        for e in errors[:8]:
            print('  harness-error: %s: %s' % (e['instance'], e['error'][:1500]))
        for e in incon[:8]:
            print('  inconclusive: %s' % json.dumps(e, default=str)[:500])
        print('INCONCLUSIVE property=%s (exit 2: nothing is claimed)' % prop)
        sys.stdout.flush()
        sys.exit(2)
    for e in besteff[:5]:
        print('  best-effort obligation open (not claimed): %s' % json.dumps(e, default=str)[:300])
    print('OK property=%s' % prop)
    sys.stdout.flush()
    sys.exit(0)


def main_args(argv=None):
    ap = argparse.ArgumentParser()
    ap.add_argument('tier', nargs='?', default=os.environ.get('VERIF_TIER', 'quick'), choices=['quick', 'thorough'])
    ap.add_argument('--replay', default=None)
    ap.add_argument('--only', default=None, help='regex on instance labels')
    return ap.parse_args(argv)


def select(instances, only):
    if only:
        return [i for i in instances if re.search(only, i['label'])]
    return instances
