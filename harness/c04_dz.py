"""C04 -- the selected axial step keeps the explicit march positive.

Linear probing by the solver: the real update methods run with unit fields (one coupled
temperature = 1, the others 0, no power) and symbolic coefficients, so their outputs are the
operator weights as rational functions of the state; the step `dz` is a variable constrained by
dz <= the value the *real* criterion returns on the same symbolic state (the min over cell
types forks).  Claims: every weight >= 0, weights sum to one.

Real code: region_rodded.calculate_min_dz, _calculate_int_dz, _calculate_byp_dz, all _cons*;
RoddedRegion._calc_coolant_int_temp, _calc_coolant_byp_temp, _calc_coolant_byp_temp_stagnant;
region_unrodded.calculate_min_dz, SingleNodeHomogeneous/MultiNodeHomogeneous._calc_coolant_temp;
core.calculate_min_dz, Core._flow_model, _noflow_model, _duct_average_model (gap harness).
"""
import copy

import numpy as np
import z3

from symx import runner, core
from harness import symregion as SR
from harness.common import StubSelf

import dassh.region_rodded as rrm
import dassh.region_unrodded as rum

MODS = SR.MODS


def _sum(xs):
    t = 0.0
    for x in xs:
        t = t + x
    return t


def _nz(x):
    return not (isinstance(x, (int, float)) and x == 0.0)


def _record_cons(env, fn, *args):
    """Run the real criterion with every _cons* function wrapped so that the per-type limits it
    computes are visible to the harness (the wiring of arguments stays the real code's)."""
    rec = {}

    def wrap(nm, f):
        def g(*a, **k):
            v = f(*a, **k)
            rec.setdefault(nm, []).append(v)
            return v
        return g
    extra = {(rrm, nm): wrap(nm, getattr(rrm, nm)) for nm in dir(rrm) if nm.startswith('_cons')}
    with env.patch([], extra=extra):
        out = fn(*args)
    return out, rec


def _self_weight(env, tag, dz, min_dz, c_ii, D, key):
    """Proof script for  1 + dz*c_ii >= 0  from  dz <= min_dz <= D  and  -c_ii * D <= 1."""
    env.lemma('%s: criterion value is at most the limit of this cell type' % tag, min_dz <= D)
    env.lemma('%s: limit of this cell type is positive' % tag, D > 0)
    env.lemma('%s: self coefficient is an outflow (<= 0)' % tag, c_ii <= 0)
    env.lemma_le('%s: self coefficient times the type limit is at most one' % tag, (0.0 - c_ii) * D, 1.0, key=key)
    env.derive('%s: self weight 1 + dz*c >= 0' % tag, 1 + dz * c_ii >= 0,
               hyps=[dz > 0, dz <= min_dz, min_dz <= D, D > 0, c_ii <= 0, (0.0 - c_ii) * D <= 1],
               atoms=[c_ii, D, min_dz], key=key)


def body_wrapper(env):
    """region_rodded.calculate_min_dz (the per-bundle wrapper): its result is at most every interior and every bypass
    limit computed at either temperature, and the adiabatic wall is passed on consistently.  The two sub-criteria are the
    real functions (wrapped only to expose their results); the correlated-parameter updates are no-ops (properties frozen)."""
    n, nduct = env.params['n_ring'], env.params['n_duct']
    adiabatic = env.params['adiabatic']
    with env.patch(MODS):
        r = SR.sym_rodded(env, n, nduct, fields=False)
        r.coolant.temperature = 700.0
        r._update_coolant_int_params = lambda *a, **k: None
        r._update_coolant_byp_params = lambda *a, **k: None
        env.stub('correlated-parameter updates at the two sampled temperatures are no-ops (the limits are computed on one symbolic state)')
        seen = []

        def spy(nm, f):
            def g(bundle, which=None):
                v = f(bundle, which)
                seen.append((nm, which, v[0]))
                return v
            return g
        with env.patch([], extra={(rrm, '_calculate_int_dz'): spy('interior', rrm._calculate_int_dz),
                                  (rrm, '_calculate_byp_dz'): spy('bypass', rrm._calculate_byp_dz)}):
            res, _code = rrm.calculate_min_dz(r, 600.0, 900.0, adiabatic)
        kinds = sorted(set(k for k, _w, _v in seen))
        env.holds('both temperatures are evaluated for the interior%s' % (' and the bypass' if nduct > 1 else ''),
                  [k for k, _w, _v in seen].count('interior') == 2 and (nduct == 1 or [k for k, _w, _v in seen].count('bypass') == 2))
        want = None if not adiabatic else ('outer_byp' if nduct > 1 else 'outer')
        env.holds('the adiabatic wall is passed on to the sub-criteria', all(w == want for _k, w, _v in seen))
        for j, (k, _w, v) in enumerate(seen):
            env.le('bundle limit <= %s limit #%d' % (k, j), res, v, key='bundle_limit_above_a_sub_limit')
        env.gt('bundle limit positive', res, 0.0)


def body_interior(env):
    n, nduct = env.params['n_ring'], env.params['n_duct']
    adiabatic = env.params['adiabatic']
    with env.patch(MODS):
        r = SR.sym_rodded(env, n, nduct, conv_approx=env.params['conv_approx'], fields=False)
        sc = r.subchannel
        nsc, nint = sc.n_sc['coolant']['total'], sc.n_sc['coolant']['interior']
        nd = sc.n_sc['duct']['total']
        which = None
        if adiabatic:
            which = 'outer_byp' if nduct > 1 else 'outer'
        (min_dz, code), rec = _record_cons(env, rrm._calculate_int_dz, r, which)
        dz = env.pos('dz', hi=10)
        env.assume(dz <= min_dz)
        obj = env.mode == 'sym'

        def zeros(shape, v=0.0):
            return np.full(shape, v, dtype=object) if obj else np.full(shape, v)
        wall_adiabatic = adiabatic and nduct == 1

        def run(T, W, step):
            r.temp['coolant_int'] = T
            if wall_adiabatic:
                # adiabatic, unheated single wall: _calc_duct_temp leaves the wall at the temperature of
                # the adjacent coolant cell (C11), which is what the explicit update then reads
                W = T[nint:].copy()
            Ws = zeros((nduct, 2, nd))
            Wm = zeros((nduct, nd))
            Ws[0, 0, :] = W
            Wm[0, :] = W
            r.temp['duct_surf'] = Ws
            r.temp['duct_mw'] = Wm
            return r._calc_coolant_int_temp(step, None, None, ebal=False)
        # coefficient matrix: response per unit step to unit fields
        C = []
        for j in range(nsc):
            T = zeros(nsc)
            T[j] = 1.0
            C.append(run(T, zeros(nd), 1.0))
        CW = []
        if not wall_adiabatic:
            for c in range(nd):
                W = zeros(nd)
                W[c] = 1.0
                CW.append(run(zeros(nsc), W, 1.0))
        typ = sc.type
        for i in range(nsc):
            nb = sorted(int(typ[x]) + 1 for x in sc.sc_adj[i] if 0 <= x < nsc)
            pat = '_cons%d_%s' % (int(typ[i]) + 1, ''.join(map(str, nb)))
            if pat not in rec:
                env.fail('cell %d (pattern %s) has a step limit in the criterion' % (i, pat), key='cell_type_without_limit')
                continue
            D = rec[pat][0]
            row = 0.0
            for j in range(nsc):
                if _nz(C[j][i]):
                    row = row + C[j][i]
                    if j != i:
                        env.ge('weight of cell %d in new cell %d >= 0' % (j, i), C[j][i], 0.0, key='negative_weight_interior')
            for c in range(len(CW)):
                if _nz(CW[c][i]):
                    row = row + CW[c][i]
                    env.ge('weight of wall cell %d in new cell %d >= 0' % (c, i), CW[c][i], 0.0)
            env.eq('cell %d: weights sum to one (coefficients sum to zero)' % i, row, 0.0, tol=1e-9,
                   scale=abs(float(C[i][i])) if not obj else 0.0)
            _self_weight(env, 'cell %d [%s]' % (i, pat[5:]), dz, min_dz, C[i][i], D, 'negative_weight_interior')
        # the update with the symbolic step is the unit-step response scaled by dz
        for j in (0, nint, nsc - 1):
            T = zeros(nsc)
            T[j] = 1.0
            out = run(T, zeros(nd), dz)
            for i in range(nsc):
                if _nz(out[i]) or _nz(C[j][i]):
                    env.eq('update scales linearly with the step (column %d, cell %d)' % (j, i), out[i], dz * C[j][i], tol=1e-9)


def body_bypass(env):
    n, nduct = env.params['n_ring'], env.params['n_duct']
    adiabatic = env.params['adiabatic']
    with env.patch(MODS):
        r = SR.sym_rodded(env, n, nduct, conv_approx=env.params['conv_approx'], fields=False)
        sc = r.subchannel
        nd = sc.n_sc['bypass']['total']
        nb = r.n_bypass
        (min_dz, code), rec = _record_cons(env, rrm._calculate_byp_dz, r, 'outer_byp' if adiabatic else None)
        dz = env.pos('dz', hi=10)
        env.assume(dz <= min_dz)
        obj = env.mode == 'sym'

        def zeros(shape, v=0.0):
            return np.full(shape, v, dtype=object) if obj else np.full(shape, v)

        i0 = env.params.get('bypass', 0)

        def run(Tb, Win, Wout, step):
            """Tb: (nb, nd); Win[i]/Wout[i]: temperature of the wall inside / outside bypass i."""
            r.temp['coolant_byp'] = Tb
            Ws = zeros((nduct, 2, nd))
            Wm = zeros((nduct, nd))
            # only the two walls of the probed gap carry a field (with conv_approx the mid-wall node of a
            # wall is shared by the two gaps it separates)
            i = i0
            wo = Tb[i].copy() if (adiabatic and i == nb - 1) else Wout[i]
            Ws[i, 1, :] = Win[i]
            Wm[i, :] = Win[i]
            Ws[i + 1, 0, :] = wo
            Wm[i + 1, :] = wo
            r.temp['duct_surf'] = Ws
            r.temp['duct_mw'] = Wm
            return r._calc_coolant_byp_temp(step, ebal=False)
        Z = lambda: zeros((nb, nd))     # noqa
        C = []
        for j in range(nd):
            T = Z()
            T[i0, j] = 1.0
            C.append(run(T, Z(), Z(), 1.0)[i0])
        CW = {}
        for side in ('in', 'out'):
            if side == 'out' and adiabatic and i0 == nb - 1:
                continue
            for j in range(nd):
                W = Z()
                W[i0, j] = 1.0
                CW[(side, j)] = run(Z(), W if side == 'in' else Z(), W if side == 'out' else Z(), 1.0)[i0]
        start = sc.n_sc['coolant']['total'] + nd + 2 * i0 * nd
        typ = sc.type
        for c in range(nd):
            nbt = sorted(int(typ[x]) + 1 for x in sc.sc_adj[start + c] if x >= 0 and typ[x] >= 5)
            pat = '_cons%d_%s' % (int(typ[start + c]) + 1, ''.join(map(str, nbt)))
            if pat not in rec or len(rec[pat]) <= i0:
                env.fail('bypass cell %d (pattern %s) has a step limit in the criterion' % (c, pat), key='cell_type_without_limit')
                continue
            D = rec[pat][i0]
            row = 0.0
            for j in range(nd):
                if _nz(C[j][c]):
                    row = row + C[j][c]
                    if j != c:
                        env.ge('weight of bypass cell %d in new bypass cell %d >= 0' % (j, c), C[j][c], 0.0, key='negative_weight_bypass')
            for (side, j), col in CW.items():
                if _nz(col[c]):
                    row = row + col[c]
                    env.ge('weight of %sner wall cell %d in new bypass cell %d >= 0' % (side, j, c), col[c], 0.0)
            env.eq('bypass cell %d: weights sum to one (coefficients sum to zero)' % c, row, 0.0, tol=1e-9,
                   scale=abs(float(C[c][c])) if not obj else 0.0)
            _self_weight(env, 'bypass %d cell %d [%s]' % (i0, c, pat[5:]), dz, min_dz, C[c][c], D, 'negative_weight_bypass')
        for j in (0, nd - 1):
            T = Z()
            T[i0, j] = 1.0
            out = run(T, Z(), Z(), dz)[i0]
            for c in range(nd):
                if _nz(out[c]) or _nz(C[j][c]):
                    env.eq('bypass update scales linearly with the step (column %d, cell %d)' % (j, c), out[c], dz * C[j][c], tol=1e-9)


def body_stagnant(env):
    n, nduct = env.params['n_ring'], env.params['n_duct']
    with env.patch(MODS):
        r = SR.sym_rodded(env, n, nduct, stagnant=True, fields=True)
        nd = r.subchannel.n_sc['bypass']['total']
        dz = env.pos('dz', hi=10)
        Tb = r.temp['coolant_byp']
        new = Tb + r._calc_coolant_byp_temp_stagnant(dz, ebal=False)
        for i in range(r.n_bypass):
            for c in range(nd):
                a, b = r.temp['duct_surf'][i, 1, c], r.temp['duct_surf'][i + 1, 0, c]
                lo = core.sym_min(a, b) if env.mode == 'sym' else min(a, b)
                hi = core.sym_max(a, b) if env.mode == 'sym' else max(a, b)
                env.ge('stagnant bypass %d cell %d: new temperature >= min of the two wall temperatures' % (i, c), new[i, c], lo)
                env.le('stagnant bypass %d cell %d: new temperature <= max of the two wall temperatures' % (i, c), new[i, c], hi)


def body_lowfid(env):
    model = env.params['model']
    adiabatic = env.params['adiabatic']
    with env.patch(MODS):
        r = SR.sym_unrodded(env, model, env.params['conv_approx'], fields=False)
        r._mratio = env.real('convection_factor', lo=0, hi=1)
        # property / correlated-parameter sets at the two temperatures the criterion samples
        sets = {}
        for tag, T in (('lo', 600.0), ('hi', 900.0)):
            sets[T] = dict(coolant=SR.SymMat(heat_capacity=env.pos('cp_' + tag, hi=1e6), density=env.pos('rho_' + tag, hi=1e5),
                                             thermal_conductivity=env.pos('k_' + tag, hi=1e4), viscosity=env.pos('mu_' + tag, hi=10),
                                             temperature=T),
                           htc=env.pos('htc_' + tag, hi=1e8), kw=env.pos('kw_' + tag, hi=1e4))

        def upd(temp, use_mat_tracker=True):
            s_ = sets[float(temp)]
            r.coolant = s_['coolant']
            r.coolant_params = dict(r.coolant_params)
            r.coolant_params['htc'] = s_['htc']
            r.duct = SR.SymMat(thermal_conductivity=s_['kw'])
        r._update_coolant_params = upd
        env.stub('_update_coolant_params switches between two arbitrary positive property/htc sets (inlet / outlet temperature)')
        upd(600.0)
        b = SR._BASE[('ur', model)]
        if model == '6node':
            r._scfr = r.flow_rate / 6
            r._cond = {'adj': b._cond['adj'], 'const': env.pos('cond_const', hi=1e3)}
        min_dz, _ = rum.calculate_min_dz(r, 600.0, 900.0, adiabatic)
        dz = env.pos('dz', hi=10)
        env.assume(dz <= min_dz)
        ncool = 1 if model == 'simple' else 6
        obj = env.mode == 'sym'

        def zeros(shape, v=0.0):
            return np.full(shape, v, dtype=object) if obj else np.full(shape, v)
        for T0 in (600.0, 900.0):
            upd(T0)
            r._update_coolant_params = lambda *a, **k: None      # properties frozen over the step
            tagT = 'inlet props' if T0 == 600.0 else 'outlet props'

            def run(T, W):
                r.temp['coolant_int'] = T
                Ws = zeros((1, 2, 6))
                Ws[0, 0, :] = W
                r.temp['duct_surf'] = Ws
                r.temp['duct_mw'] = W.reshape(1, 6).copy()
                d = r._calc_coolant_temp(dz, {'refl': 0.0}, adiabatic, ebal=False)
                return T + d
            ones = run(zeros(ncool, 1.0), zeros(6, 1.0))
            for i in range(ncool):
                env.eq('%s: uniform field preserved (node %d)' % (tagT, i), ones[i], 1.0, tol=1e-9)
            for j in range(ncool):
                T = zeros(ncool)
                T[j] = 1.0
                out = run(T, zeros(6))
                for i in range(ncool):
                    if _nz(out[i]):
                        env.ge('%s: weight of node %d in new node %d >= 0' % (tagT, j, i), out[i], 0.0,
                               key='negative_weight_lowfid_' + model)
            if not adiabatic:
                for c in range(6):
                    W = zeros(6)
                    W[c] = 1.0
                    out = run(zeros(ncool), W)
                    for i in range(ncool):
                        if _nz(out[i]):
                            env.ge('%s: weight of wall cell %d in new node %d >= 0' % (tagT, c, i), out[i], 0.0)
            r._update_coolant_params = upd


def body_gap(env):
    """Inter-assembly gap, flow model: weights of the explicit gap update at the step the real core
    criterion returns.  Two independent property / film-coefficient sets (inlet and outlet temperature)."""
    from harness import symcore as SC
    import dassh.core as cm
    r = SC.build_reactor(env.params['layout'])
    with env.patch(MODS + [cm]):
        c = SC.sym_core(env, r)
        n = c.n_sc
        obj = env.mode == 'sym'
        sets = {}
        for tag, T in (('lo', 600.0), ('hi', 900.0)):
            h = np.empty(n, dtype=object)
            for i in range(n):
                h[i] = env.pos('htc_%s_%d' % (tag, i), hi=1e7, nominal=3e4 + 50 * i + (0 if tag == 'lo' else 4e3))
            sets[T] = dict(htc=h if obj else h.astype(float),
                           mat=SC.GapMat(heat_capacity=env.pos('cp_' + tag, hi=1e6, nominal=1275.0 if tag == 'lo' else 1255.0),
                                         thermal_conductivity=env.pos('k_' + tag, hi=1e4, nominal=75.0 if tag == 'lo' else 60.0),
                                         density=850.0, viscosity=2.5e-4))
            sets[T]['mat'].temperature = T

        def upd(temp):
            s_ = sets[float(temp)]
            c.gap_coolant = s_['mat']
            c.coolant_gap_params = dict(c.coolant_gap_params)
            c.coolant_gap_params['htc'] = s_['htc']
        c._update_coolant_gap_params = upd
        upd(600.0)
        env.stub('Core._update_coolant_gap_params switches between two arbitrary positive property / film-coefficient sets')
        # per-cell limits as the criterion computes them: capture the array handed to np.min (and take the
        # minimum without forking: min_dz is then a single term, min_dz <= D_f holds by definition of min)
        seen = []
        mins = []

        class RecNP:
            def __init__(self, inner):
                self._inner = inner

            def __getattr__(self, k):
                return getattr(self._inner, k)

            def min(self, a, *args, **kw):
                seen.append(a)
                if obj:
                    m = None
                    for x in np.ravel(a):
                        m = x if m is None else core.sym_min(m, x)
                    mins.append(m)
                    return m
                m = self._inner.min(a, *args, **kw)
                mins.append(m)
                return m
        with env.patch([], extra={(cm, 'np'): RecNP(cm.np)}):
            min_dz, _code = cm.calculate_min_dz(c, 600.0, 900.0)
        Dsets = [a for a in seen if np.size(a) == n]
        Msets = [m for a, m in zip(seen, mins) if np.size(a) == n]
        decisions = [(e if t_ else z3.Not(e)) for e, t_ in core.CTX.decisions] if obj else []
        dz = env.pos('dz', hi=10, nominal=1e-9)
        env.assume(dz <= min_dz)

        def zeros(shape, v=0.0):
            return np.full(shape, v, dtype=object) if obj else np.full(shape, v)
        adj = r.core._asm_sc_adj
        for si, T0 in enumerate((600.0, 900.0)):
            upd(T0)
            c._update_coolant_gap_params = lambda *a, **k: None
            tagT = 'inlet props' if T0 == 600.0 else 'outlet props'
            # the per-cell limits the criterion computed with this property set (if it looked at it at all)
            D = Dsets[si] if len(Dsets) == 2 else Dsets[-1]
            M = Msets[si] if len(Msets) == 2 else Msets[-1]
            env.derive('%s: criterion value is at most the smallest limit at this temperature' % tagT, min_dz <= M,
                       hyps=decisions, atoms=list(Msets), lemma=True)

            def run(Tg, Td, step):
                c.coolant_gap_temp = Tg
                return c._flow_model(step, Td)
            C = []
            for j in range(n):
                Tg = zeros(n)
                Tg[j] = 1.0
                C.append(run(Tg, zeros(adj.shape), 1.0))
            for f in range(n):
                row = 0.0
                for j in range(n):
                    if _nz(C[j][f]):
                        row = row + C[j][f]
                        if j != f:
                            env.ge('%s: weight of gap cell %d in new gap cell %d >= 0' % (tagT, j + 1, f + 1), C[j][f], 0.0)
                wall = 0.0
                for a in range(adj.shape[0]):
                    for i in range(adj.shape[1]):
                        if adj[a, i] - 1 == f:
                            Td = zeros(adj.shape)
                            Td[a, i] = 1.0
                            w = run(zeros(n), Td, 1.0)[f]
                            env.ge('%s: weight of duct cell (%d,%d) in new gap cell %d >= 0' % (tagT, a, i, f + 1), w, 0.0)
                            wall = wall + w
                env.eq('%s: gap cell %d: weights sum to one (coefficients sum to zero)' % (tagT, f + 1), row + wall, 0.0, tol=1e-9,
                       scale=abs(float(C[f][f])) if not obj else 0.0)
                # self weight: 1 + dz * c_ff >= 0 given dz <= min_dz
                env.lemma('%s: gap cell %d: self coefficient is an outflow' % (tagT, f + 1), C[f][f] <= 0)
                env.lemma('%s: gap cell %d: its step limit is positive' % (tagT, f + 1), D[f] > 0)
                env.derive('%s: gap cell %d: smallest limit is at most its step limit' % (tagT, f + 1), M <= D[f],
                           hyps=[], atoms=list(D), lemma=True)
                env.lemma_le('%s: gap cell %d: self coefficient times its step limit is at most one' % (tagT, f + 1),
                             (0.0 - C[f][f]) * D[f], 1.0, key='negative_weight_gap')
                env.derive('%s: gap cell %d: self weight 1 + dz*c >= 0' % (tagT, f + 1), 1 + dz * C[f][f] >= 0,
                           hyps=[dz > 0, dz <= min_dz, min_dz <= M, M <= D[f], D[f] > 0, C[f][f] <= 0, (0.0 - C[f][f]) * D[f] <= 1],
                           atoms=[C[f][f], D[f], min_dz, M], key='negative_weight_gap')
            c._update_coolant_gap_params = upd


def body_gap_static(env):
    """no-flow and duct-average gap models: the new gap temperature is a convex combination of the
    adjacent duct-wall temperatures and (no-flow) the neighbouring gap temperatures, for any step."""
    from harness import symcore as SC
    import dassh.core as cm
    model = env.params['model']
    r = SC.build_reactor(env.params['layout'], gap_model=model)
    with env.patch(MODS + [cm]):
        c = SC.sym_core(env, r)
        n = c.n_sc
        obj = env.mode == 'sym'
        adj = r.core._asm_sc_adj
        td = np.full(adj.shape, 0.0, dtype=object) if obj else np.zeros(adj.shape)
        for a in range(adj.shape[0]):
            for i in range(adj.shape[1]):
                if adj[a, i] > 0:
                    td[a, i] = env.real('Tduct_%d_%d' % (a, i), lo=200, hi=3000)
        T0 = c.coolant_gap_temp.copy()
        new = c._noflow_model(td) if model == 'no_flow' else c._duct_average_model(td)
        sadj = r.core._sc_adj
        for f in range(n):
            vals = [td[a, i] for a in range(adj.shape[0]) for i in range(adj.shape[1]) if adj[a, i] - 1 == f]
            if model == 'no_flow':
                vals += [T0[sadj[f, j] - 1] for j in range(3) if sadj[f, j] > 0]
            lo, hi = vals[0], vals[0]
            for v in vals[1:]:
                lo = core.sym_min(lo, v) if obj else min(lo, v)
                hi = core.sym_max(hi, v) if obj else max(hi, v)
            env.ge('%s: new gap cell %d >= min of the temperatures it is coupled to' % (model, f + 1), new[f], lo)
            env.le('%s: new gap cell %d <= max of the temperatures it is coupled to' % (model, f + 1), new[f], hi)


def instances(tier):
    inst = []
    for n in ((2, 3) if tier == 'quick' else (2, 3, 4, 5)):
        for nduct in (1, 2):
            for conv in (False, True):
                for adiabatic in (False, True):
                    inst.append(dict(label='interior[rings=%d,ducts=%d,conv_approx=%s,adiabatic=%s]' % (n, nduct, conv, adiabatic),
                                     body=body_interior, params={'n_ring': n, 'n_duct': nduct, 'conv_approx': conv, 'adiabatic': adiabatic},
                                     timeout_ms=120000, max_paths=64))
    for n in ((2, 3) if tier == 'quick' else (2, 3, 4)):
        for nduct in (2, 3):
            if tier == 'quick' and n > 2 and nduct > 2:
                continue
            for conv in (False, True):
                for adiabatic in (False, True):
                    for bi in range(nduct - 1):
                        inst.append(dict(label='bypass[rings=%d,ducts=%d,conv_approx=%s,adiabatic=%s,gap=%d]' % (n, nduct, conv, adiabatic, bi),
                                         body=body_bypass, params={'n_ring': n, 'n_duct': nduct, 'conv_approx': conv,
                                                                   'adiabatic': adiabatic, 'bypass': bi}, timeout_ms=120000, max_paths=64))
    for n, nduct in ((2, 1), (2, 2), (2, 3), (3, 2)):
        for adiabatic in (False, True):
            inst.append(dict(label='bundle-limit[rings=%d,ducts=%d,adiabatic=%s]' % (n, nduct, adiabatic), body=body_wrapper,
                             params={'n_ring': n, 'n_duct': nduct, 'adiabatic': adiabatic}, max_paths=400, max_depth=200, timeout_ms=120000))
    from harness.c06_isolation import body_mesh_req
    for codes in (('3-22', '1-111'), ('2-22', '6-66'), ('1-111', '3-22')):
        inst.append(dict(label='reactor-requirement[limiting cells %s / %s]' % codes, body=body_mesh_req, params={'codes': codes}))
    for n in (2, 3):
        inst.append(dict(label='stagnant-bypass[rings=%d]' % n, body=body_stagnant, params={'n_ring': n, 'n_duct': 2}))
    for lay in (('one-a2', 'two-a2-a3', 'three-a2-a3-ur') if tier == 'quick' else ('one-a2', 'two-a2-a3', 'three-a2-a3-ur', 'three-a3-dd-u6', 'ring-no-centre')):
        inst.append(dict(label='gap-flow[%s]' % lay, body=body_gap, params={'layout': lay}, max_paths=64, timeout_ms=8000))
        for model in ('no_flow', 'duct_average'):
            inst.append(dict(label='gap-%s[%s]' % (model, lay), body=body_gap_static, params={'layout': lay, 'model': model},
                             max_paths=64, timeout_ms=60000))
    for model in ('simple', '6node'):
        for conv in (False, True):
            for adiabatic in (False, True):
                inst.append(dict(label='lowfid[%s,conv_approx=%s,adiabatic=%s]' % (model, conv, adiabatic), body=body_lowfid,
                                 params={'model': model, 'conv_approx': conv, 'adiabatic': adiabatic}, max_paths=64))
    return inst


def main():
    a = runner.main_args()
    inst = runner.select(instances(a.tier), a.only)
    runner.run_check(
        'C04', inst, a.tier,
        explanation=('Linear probing by the solver: unit fields through the real explicit update methods give the operator weights as '
                     'rational functions of a fully symbolic state; dz is a variable bounded by what the real step criterion returns on '
                     'that state (each possible limiting cell type is a path); weight >= 0 and weights-sum-to-one are SMT queries.'),
        bounds={'rings': '2..3 (quick) / 2..5', 'ducts': '1..3', 'conv_approx': 'on/off', 'adiabatic': 'on/off',
                'low fidelity': 'simple and 6-node, convection factor in (0,1], two independent property sets (inlet/outlet)'},
        outside=['property variation between the two sampled temperatures', 'user step requests (C05)'],
        level_assumptions=['derived geometry satisfies the GEOM invariant (C08); fs, htc, properties > 0; eddy, swirl >= 0'])


if __name__ == '__main__':
    main()
