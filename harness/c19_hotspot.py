"""C19 -- hot-spot temperatures reduce to nominal and grow with uncertainty.

Real code executed symbolically (dassh/hotspot.py): calculate_temps, _split_clad_subfactors,
_evaluate_hcf_expr (user expressions replaced by arbitrary functions of dT), _get_peak_dt.
All sub-factors, temperature rises, the inlet temperature and both sigma levels are solver
variables (sigma levels as reals >= 0: the integers are a subset).
"""
import numpy as np
import z3

from symx import runner, core
from symx.core import Sym
from harness.common import StubSelf

import dassh.hotspot as hs

MODS = [hs]


def _arr(env, prefix, shape, lo, hi=None, ones=False):
    a = np.empty(shape, dtype=object)
    for idx in np.ndindex(shape):
        if ones:
            a[idx] = 1.0
        else:
            a[idx] = env.real(prefix + '_'.join(map(str, idx)), lo=lo, lo_strict=False, hi=hi)
    if env.mode == 'replay' or ones:
        return a.astype(float)
    return a


def _nominal(T_in, dT, a, j):
    t = T_in
    for i in range(j + 1):
        t = t + dT[a, i]
    return t


def body_temps(env):
    na, nd, ns, nt = env.params['n_asm'], env.params['n_direct'], env.params['n_stat'], env.params['n_terms']
    kind = env.params['kind']
    with env.patch(MODS) as snp:
        T_in = env.real('T_in', lo=200, hi=2000)
        dT = _arr(env, 'dT', (na, nt), 0, 5000)
        IN = env.real('IN_sigma', lo=0.5, lo_strict=False, hi=6)
        OUT = env.real('OUT_sigma', lo=0, lo_strict=False, hi=6)
        if kind == 'unity':
            hcf = {'direct': _arr(env, 'd', (na, nd, nt), 1, ones=True), 'statistical': _arr(env, 's', (na, ns, nt), 1, ones=True)}
            T = hs.calculate_temps(T_in, dT, hcf, IN_sigma=IN, OUT_sigma=OUT)
            for a in range(na):
                for j in range(nt):
                    env.eq('all subfactors one: hot-spot = nominal (asm %d, level %d)' % (a, j), T[a, j], _nominal(T_in, dT, a, j))
            return
        hcf = {'direct': _arr(env, 'd', (na, nd, nt), 1, 10), 'statistical': _arr(env, 's', (na, ns, nt), 1, 10)}
        T = hs.calculate_temps(T_in, dT, {k: v.copy() for k, v in hcf.items()}, IN_sigma=IN, OUT_sigma=OUT)
        if kind == 'bounds':
            T0 = hs.calculate_temps(T_in, dT, {k: v.copy() for k, v in hcf.items()}, IN_sigma=IN, OUT_sigma=0)
            # lemma chain over the intermediate quantities of calculate_temps (recomputed here with the
            # same NumPy operations, hence the same terms); each lemma is itself proved by the solver
            P = snp.prod(hcf['direct'], axis=1)
            z = dT * P
            u = z[:, np.newaxis, :] * (hcf['statistical'] - 1)
            C = np.cumsum(u, axis=2)
            X = np.sum(C ** 2, axis=1)
            for a in range(na):
                for j in range(nt):
                    env.lemma('L1 product of direct subfactors >= 1 (asm %d, col %d)' % (a, j), P[a, j] >= 1)
                    env.lemma('L2 zero-sigma rise >= nominal rise (asm %d, col %d)' % (a, j), env.land(z[a, j] >= dT[a, j], z[a, j] >= 0))
                    for k in range(ns):
                        env.lemma('L3 uncertainty term >= 0 (asm %d, sf %d, col %d)' % (a, k, j), u[a, k, j] >= 0)
                        prev = C[a, k, j - 1] if j else 0.0
                        env.lemma('L4 cumulative uncertainty non-decreasing (asm %d, sf %d, col %d)' % (a, k, j),
                                  env.land(C[a, k, j] >= prev, C[a, k, j] >= 0))
                        if j:
                            env.lemma('L5 squares non-decreasing (asm %d, sf %d, col %d)' % (a, k, j),
                                      C[a, k, j] ** 2 >= C[a, k, j - 1] ** 2)
                    if j:
                        env.lemma('L6 sum of squares non-decreasing (asm %d, col %d)' % (a, j), X[a, j] >= X[a, j - 1])
                    env.lemma('L7 sum of squares >= 0 (asm %d, col %d)' % (a, j), X[a, j] >= 0)
            for a in range(na):
                for j in range(nt):
                    env.lemma('zero-sigma value >= nominal (asm %d, level %d)' % (a, j), T0[a, j] >= _nominal(T_in, dT, a, j))
                    env.ge('hot-spot >= zero-sigma value (asm %d, level %d)' % (a, j), T[a, j], T0[a, j])
                    env.ge('hot-spot >= nominal (asm %d, level %d)' % (a, j), T[a, j], _nominal(T_in, dT, a, j))
                for j in range(nt - 1):
                    # cumulative: each level adds at least its own zero-sigma rise
                    env.ge('cumulative: level %d adds its own rise (asm %d)' % (j + 1, a), T[a, j + 1] - T[a, j], z[a, j + 1])
                    env.ge('sequence non-decreasing (asm %d, level %d)' % (a, j), T[a, j + 1], T[a, j])
        elif kind == 'monotone':
            OUT2 = env.real('OUT_sigma_2', lo=0, lo_strict=False, hi=6)
            env.assume(OUT2 >= OUT)
            T2 = hs.calculate_temps(T_in, dT, {k: v.copy() for k, v in hcf.items()}, IN_sigma=IN, OUT_sigma=OUT2)
            for a in range(na):
                for j in range(nt):
                    env.ge('monotone in output sigma (asm %d, level %d)' % (a, j), T2[a, j], T[a, j])
        elif kind == 'scaling':
            IN2 = env.real('IN_sigma_2', lo=0.5, lo_strict=False, hi=6)
            T0 = hs.calculate_temps(T_in, dT, {k: v.copy() for k, v in hcf.items()}, IN_sigma=IN, OUT_sigma=0)
            Tb = hs.calculate_temps(T_in, dT, {k: v.copy() for k, v in hcf.items()}, IN_sigma=IN2, OUT_sigma=OUT)
            for a in range(na):
                for j in range(nt):
                    env.eq('statistical part scales with 1/input sigma (asm %d, level %d)' % (a, j),
                           (T[a, j] - T0[a, j]) * IN, (Tb[a, j] - T0[a, j]) * IN2, tol=1e-7)


def body_split(env):
    """Clad split: the cladding column is applied to both OD-MW and MW-ID rises."""
    nd, ns = env.params['n_direct'], env.params['n_stat']
    ncol = env.params['ncol']
    with env.patch(MODS):
        subf = {'direct': _arr(env, 'd', (nd, ncol), 1, 10), 'statistical': _arr(env, 's', (ns, ncol), 1, 10)}
        expr = {('direct', 0, 0): 'e_cool', ('direct', 0, 2): 'e_clad', ('statistical', 0, 1): 'e_film'}
        if ncol > 3:
            expr[('statistical', 0, 3)] = 'e_gap'
            expr[('direct', 0, 4)] = 'e_fuel'
        new, enew = hs._split_clad_subfactors({k: v.copy() for k, v in subf.items()}, dict(expr))
        for k in subf:
            env.holds('%s table gains one column' % k, new[k].shape == (subf[k].shape[0], ncol + 1))
            for r in range(subf[k].shape[0]):
                for c in range(ncol + 1):
                    src = c if c <= 2 else c - 1
                    env.eq('%s[%d,%d] comes from column %d' % (k, r, c, src), new[k][r, c], subf[k][r, src])
        want = {}
        for (t, r, c), v in expr.items():
            if c < 2:
                want[(t, r, c)] = v
            elif c == 2:
                want[(t, r, 2)] = v
                want[(t, r, 3)] = v
            else:
                want[(t, r, c + 1)] = v
        env.holds('expressions follow their columns (cladding expression duplicated)', enew == want)


def body_expr(env):
    """_evaluate_hcf_expr: a dT-dependent subfactor is evaluated with the dT of its own column
    and assembly; constant subfactors are broadcast unchanged."""
    na, nsf, nt = env.params['n_asm'], env.params['n_sf'], env.params['n_terms']
    with env.patch(MODS):
        dT = _arr(env, 'dT', (na, nt), 0, 5000)
        base = {'direct': _arr(env, 'd', (nsf, nt), 1, 10), 'statistical': _arr(env, 's', (nsf, nt), 1, 10)}
        # the same expression text in several columns (what the clad split produces) and rows
        exprs = {('direct', 0, 1): 'EXPR_A', ('direct', 0, 2): 'EXPR_A', ('statistical', nsf - 1, nt - 1): 'EXPR_B',
                 ('statistical', 0, 0): 'EXPR_B', ('direct', nsf - 1, 0): 'EXPR_A'}
        seen = []

        def fake_eval(expr, dT_col):
            # arbitrary function of dT (uninterpreted), per expression
            out = np.empty(len(dT_col), dtype=object)
            for i, x in enumerate(dT_col):
                if env.mode == 'sym':
                    out[i] = Sym(core.uf(expr)(core.toz(x)))
                else:
                    out[i] = {'EXPR_A': 1.0 + 0.001 * x, 'EXPR_B': 1.0 + 1.0 / (1.0 + x)}[expr]
            seen.append((expr, list(dT_col)))
            return out if env.mode == 'sym' else out.astype(float)
        with env.patch([], extra={(hs, '_eval_expr'): fake_eval}):
            out = hs._evaluate_hcf_expr({k: v.copy() for k, v in base.items()}, exprs, dT)
        for k in base:
            env.holds('%s expanded per assembly' % k, out[k].shape == (na, nsf, nt))
            for a in range(na):
                for r in range(nsf):
                    for c in range(nt):
                        if (k, r, c) in exprs:
                            want = fake_eval(exprs[(k, r, c)], [dT[a, c]])[0]
                            env.eq('%s[%d,%d,%d] = expression of its own dT' % (k, a, r, c), out[k][a, r, c], want)
                        else:
                            env.eq('%s[%d,%d,%d] constant broadcast' % (k, a, r, c), out[k][a, r, c], base[k][r, c])


class _Asm:
    pass


def body_peakdt(env):
    """_get_peak_dt: the rises are consecutive differences of the stored radial profile at the peak."""
    value = env.params['value']
    with env.patch(MODS):
        T_in = env.real('T_in', lo=200, hi=2000)
        asms = []
        profs = []
        for a in range(3):
            o = _Asm()
            o.name = 'fuel' if a != 1 else 'other'
            prof = [float(a), 0.0, 0.0] + [env.real('prof%d_%d' % (a, i), lo=200, hi=5000) for i in range(6)]
            peakc = env.real('peakcool%d' % a, lo=200, hi=5000)
            o._peak = {'cool': [peakc, 0.1], 'pin': {k: [0.0, 0.0, prof] for k in ('clad_od', 'clad_mw', 'clad_id', 'fuel_od', 'fuel_cl')}}
            asms.append(o)
            profs.append((prof, peakc))
        r = StubSelf(assemblies=asms, inlet_temp=T_in)
        dt = hs._get_peak_dt(r, 'fuel', value)
        idx = {'coolant': None, 'clad_od': 5, 'clad_mw': 6, 'clad_id': 7, 'fuel_od': 8, 'fuel_cl': 9}[value]
        rows = [0, 2]
        env.holds('one row per assembly of the type', dt.shape[0] == 2)
        for ri, a in enumerate(rows):
            prof, peakc = profs[a]
            seq = [T_in] + ([peakc] if value == 'coolant' else prof[3:idx])
            env.holds('number of rises (row %d)' % ri, dt.shape[1] == len(seq) - 1)
            for j in range(len(seq) - 1):
                env.eq('rise %d of row %d is the consecutive difference of the stored peak profile' % (j, ri),
                       dt[ri, j], seq[j + 1] - seq[j])


def body_analyze(env):
    """hotspot.analyze on a reactor with interleaved assembly types that request the same location: with all subfactors
    equal to one every returned row is the nominal cumulative peak profile of the assembly whose id is listed at that
    row (the bookkeeping of ids, rows and types), for every requested location."""
    with env.patch(MODS):
        T_in = env.real('T_in', lo=200, hi=2000)
        names = ['inner', 'outer', 'inner', 'blanket', 'outer']
        asms = []
        for a, nm in enumerate(names):
            o = _Asm()
            o.name = nm
            o.id = a
            prof = [float(a), 0.0, 0.0] + [env.real('prof%d_%d' % (a, i), lo=200, hi=5000) for i in range(6)]
            peakc = env.real('peakcool%d' % a, lo=200, hi=5000)
            o._peak = {'cool': [peakc, 0.1], 'pin': {k: [0.0, 0.0, prof] for k in ('clad_od', 'clad_mw', 'clad_id', 'fuel_od', 'fuel_cl')}}
            asms.append(o)
        req = {'inner': ['coolant', 'clad_mw', 'fuel_cl'], 'outer': ['fuel_cl', 'clad_mw'], 'blanket': ['coolant']}
        opts = {nm: {k: {'subfactors': 'unity', 'input_sigma': 3, 'output_sigma': 2} for k in ks} for nm, ks in req.items()}
        r = StubSelf(assemblies=asms, inlet_temp=T_in, _options={'hotspot': opts})

        def unity_table(path, cols_needed=None):
            n = int(cols_needed) if cols_needed is not None else 5
            return {'direct': np.ones((2, n)), 'statistical': np.ones((2, n))}, {}
        env.stub('_read_hcf_table returns an all-ones table (file reading is outside the claim)')
        with env.patch([], extra={(hs, '_read_hcf_table'): unity_table}):
            out = hs.analyze(r)
        env.holds('analyze returns results', out is not None)
        peak_temps, asm_ids = out
        idx = {'clad_od': 5, 'clad_mw': 6, 'clad_id': 7, 'fuel_od': 8, 'fuel_cl': 9}
        for loc in ('coolant', 'clad_mw', 'fuel_cl'):
            want = sorted(a for a, nm in enumerate(names) if loc in req[nm])
            got = [int(x) for x in asm_ids.get(loc, [])]
            env.holds('%s: every assembly of every type that requested it is listed once, in id order' % loc, got == want,
                      key='hotspot_rows_do_not_match_assemblies')
            if got != want:
                continue
            rows = peak_temps[loc]
            env.holds('%s: one row per listed assembly' % loc, rows.shape[0] == len(want), key='hotspot_rows_do_not_match_assemblies')
            for i, a in enumerate(want):
                o = asms[a]
                seq = [o._peak['cool'][0]] if loc == 'coolant' else o._peak['pin'][loc][2][3:idx[loc]]
                for j in range(len(seq)):
                    env.eq('%s: row %d is assembly %d: with unit subfactors column %d is its own stored peak temperature' % (loc, i, a, j),
                           rows[i, j], seq[j], tol=1e-9, key='hotspot_rows_do_not_match_assemblies')


def body_table_reader(env):
    """The real _read_hcf_table on generated tables whose Direct and Statistical rows come in the given order (enumeration of
    row orders; the numbers are distinct constants, some entries are dT expressions): every constant lands in the row of its
    own subfactor within its own group (file order kept), every expression is keyed to the position of its own NaN
    placeholder -- wherever the other group's rows stand in the file."""
    import os
    import shutil
    import tempfile
    order = env.params['order']                  # e.g. 'DSDS'
    ncol = env.params['ncol']
    names = ['Coolant', 'Film', 'Cladding', 'Gap', 'Fuel'][:ncol]
    d = tempfile.mkdtemp(prefix='dassh-verif-c19.')
    try:
        want = {'direct': [], 'statistical': []}
        wexpr = {}
        lines = ['Subfactor,Type,' + ','.join(names)]
        for r_, ch in enumerate(order):
            key = 'direct' if ch == 'D' else 'statistical'
            row, cells = [], []
            for c in range(ncol):
                if (r_ + 2 * c) % 3 == 0:
                    e = '1.0%d + 0.000%d * dT' % (r_ + 1, c + 1)
                    wexpr[(key, len(want[key]), c)] = e
                    row.append(float('nan'))
                    cells.append(e)
                else:
                    v = 1.0 + 0.01 * (r_ + 1) + 0.001 * (c + 1)
                    row.append(v)
                    cells.append(repr(v))
            want[key].append(row)
            lines.append('sf%d,%s,%s' % (r_, 'Direct' if ch == 'D' else 'Statistical', ','.join(cells)))
        path = os.path.join(d, 'hcf.csv')
        with open(path, 'w') as f:
            f.write('\n'.join(lines) + '\n')
        try:
            hcf, expr = hs._read_hcf_table(path)
        except (Exception, SystemExit) as ex:       # noqa
            env.fail('the table is read without an exception', why=repr(ex)[:200], key='table_reader_misplaces_rows')
            return
    finally:
        shutil.rmtree(d, ignore_errors=True)
    for key in ('direct', 'statistical'):
        w = np.array(want[key], dtype=float).reshape(len(want[key]), ncol)
        g = np.asarray(hcf[key], dtype=float).reshape(-1, ncol) if len(want[key]) else np.zeros((0, ncol))
        env.holds('%s subfactors: constants in the rows of their own subfactors, placeholders where the expressions stand' % key,
                  g.shape == w.shape and bool(np.array_equal(g, w, equal_nan=True)), key='table_reader_misplaces_rows')
    env.holds('every expression is keyed to the group, row and column of its own placeholder',
              {k: v.strip() for k, v in expr.items()} == wexpr, key='table_reader_misplaces_rows')


def body_options(env):
    """hotspot._setup_postprocess (glue between the input blocks and the analysis): the input and output confidence levels
    stated for an assembly type and location reach the analysis options unchanged -- every value, the boundary values 0
    included (symbolic sigmas; two types, two locations each, built-in table names)."""
    with env.patch(MODS):
        data = {'Assembly': {}}
        want = {}
        for ai, a in enumerate(('fuel', 'blanket')):
            blocks = {}
            for hi_, loc in enumerate(('clad_mw', 'coolant')):
                si = env.nonneg('input_sigma_%s_%s' % (a, loc), hi=10) if env.params['sym'] else [0, 3][(ai + hi_) % 2]
                so = env.nonneg('output_sigma_%s_%s' % (a, loc), hi=10) if env.params['sym'] else [2, 0][(ai + hi_) % 2]
                blocks['h%d' % hi_] = {'temperature': loc, 'input_sigma': si, 'output_sigma': so, 'subfactors': 'fftf_clad_mw'}
                want[(a, loc)] = (si, so)
            data['Assembly'][a] = {'Hotspot': blocks, 'FuelModel': {'x': 1}}
        inp = StubSelf(data=data, path='.')
        out = hs._setup_postprocess(inp)
        for (a, loc), (si, so) in want.items():
            got = out.get(a, {}).get(loc, {})
            env.eq('%s / %s: input confidence level as stated' % (a, loc), got.get('input_sigma', -1.0), si, key='hotspot_options_altered')
            env.eq('%s / %s: output confidence level as stated' % (a, loc), got.get('output_sigma', -1.0), so, key='hotspot_options_altered')


def instances(tier):
    inst = []
    if tier == 'probe':
        sizes = [(1, 2, 2, 3), (1, 1, 1, 5), (1, 2, 1, 5), (1, 1, 2, 5), (1, 1, 1, 4), (1, 2, 2, 4)]
    else:
      sizes = [(1, 1, 1, 3), (2, 2, 2, 3), (1, 2, 2, 4), (1, 1, 1, 5)] if tier == 'quick' else \
        [(1, 1, 1, 3), (2, 2, 2, 3), (1, 2, 2, 5), (2, 3, 3, 5), (1, 4, 4, 5), (2, 4, 4, 5), (1, 3, 3, 4)]
    for (na, nd, ns, nt) in sizes:
        for kind in ('unity', 'bounds', 'monotone', 'scaling'):
            inst.append(dict(label='temps-%s[asm=%d,direct=%d,stat=%d,terms=%d]' % (kind, na, nd, ns, nt), body=body_temps,
                             params={'n_asm': na, 'n_direct': nd, 'n_stat': ns, 'n_terms': nt, 'kind': kind},
                             timeout_ms=120000))
    for ncol in (3, 5):
        inst.append(dict(label='clad-split[cols=%d]' % ncol, body=body_split, params={'n_direct': 2, 'n_stat': 2, 'ncol': ncol}))
    for (na, nsf, nt) in ((1, 2, 3), (2, 2, 4)) + (((3, 3, 5),) if tier == 'thorough' else ()):
        inst.append(dict(label='expr[asm=%d,sf=%d,terms=%d]' % (na, nsf, nt), body=body_expr,
                         params={'n_asm': na, 'n_sf': nsf, 'n_terms': nt}))
    for v in ('coolant', 'clad_od', 'clad_mw', 'clad_id', 'fuel_od', 'fuel_cl'):
        inst.append(dict(label='peak-dt[%s]' % v, body=body_peakdt, params={'value': v}))
    for order in ('DDSS', 'SSDD', 'DSDS', 'SDDS', 'SDSD', 'D', 'S', 'SSD'):
        for ncol in (3, 5):
            inst.append(dict(label='table-reader[rows %s,%d columns]' % (order, ncol), body=body_table_reader, params={'order': order, 'ncol': ncol},
                             check_vacuity=False))
    for sym in (True, False):
        inst.append(dict(label='options[%s]' % ('symbolic levels' if sym else 'levels 0, 2, 3'), body=body_options, params={'sym': sym},
                         check_vacuity=sym))
    inst.append(dict(label='analyze[three interleaved types, shared locations]', body=body_analyze, params={}, timeout_ms=120000))
    return inst


def main():
    a = runner.main_args()
    inst = runner.select(instances(a.tier), a.only)
    runner.run_check(
        'C19', inst, a.tier,
        explanation=('hotspot.calculate_temps runs on symbolic sub-factor tables, temperature rises and sigma levels; identity at '
                     'unity, lower bounds, monotonicity in the output sigma (self-composition of two runs), inverse scaling with '
                     'the input sigma and the cumulative structure are SMT queries; the square roots are fresh variables with '
                     's>=0, monotonicity lemmas and (second rung of the ladder) s*s = x.'),
        bounds={'table sizes (assemblies x direct x statistical x terms)': '1x1x1x3, 2x2x2x3, 1x2x2x4, 1x1x1x5 (quick) / up to 2x4x4x5',
                'sigma levels': 'reals in [0,6] (input sigma >= 0.5)', 'subfactors': '[1,10]', 'temperature rises': '[0,5000] K'},
        outside=['CSV reading and eval() of user expressions (expressions are arbitrary functions of dT)', 'table formatting'],
        level_assumptions=['direct and statistical subfactors >= 1, temperature rises >= 0 (the property\'s premise)'])


if __name__ == '__main__':
    main()
