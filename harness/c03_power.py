"""C03 -- power deposited over the sweep equals the power assigned.

Real code executed symbolically (dassh/power.py): AssemblyPower.__init__, presweep_setup,
get_power_sweep, _calculate_pdist, calculate_total_power, power._integrate;
Reactor._setup_scale_asm_power; the tally statement of Assembly.calculate is C01's.
All polynomial coefficients of the pin / duct / coolant profiles, the positions of the axial
planes inside each power cell and the scaling factors are solver variables; the position of the
pin-bundle bounds relative to the power mesh is enumerated (aligned with a power-cell boundary,
strictly inside a power cell, at the core ends).
"""
import fractions

import numpy as np

from symx import runner, core
from harness.common import StubSelf

import dassh.power as pw
import dassh.reactor as rm

MODS = [pw, rm]
F = fractions.Fraction


def _sum(xs):
    t = 0.0
    for x in xs:
        t = t + x
    return t


def _profiles(env, ncell, comps, nterm):
    """Non-negative polynomial profiles (W/cm) per power cell: a + b z*, a > |b|/2 on [-1/2, 1/2]."""
    out = {}
    for comp, n in comps.items():
        if n == 0:
            out[comp] = None
            continue
        arr = np.empty((ncell, n, nterm), dtype=object)
        for k in range(ncell):
            for i in range(n):
                a = env.pos('%s_c%d_%d_a' % (comp, k, i), hi=1e5)
                arr[k, i, 0] = a
                if nterm > 1:
                    b = env.real('%s_c%d_%d_b' % (comp, k, i), lo=-1e5, hi=1e5)
                    env.assume(a * 2 >= b * 1.0000001)
                    env.assume(a * 2 >= 0.0 - b * 1.0000001)
                    arr[k, i, 1] = b
                for t in range(2, nterm):
                    arr[k, i, t] = 0.0
        out[comp] = arr.astype(float) if env.mode == 'replay' else arr
    return out


def _closed_avg(prof, nterm, k):
    """Integral over z* in [-1/2, 1/2] of the summed profiles of cell k (independent closed form)."""
    tot = 0.0
    for comp, arr in prof.items():
        if arr is None:
            continue
        for i in range(arr.shape[1]):
            for t in range(nterm):
                w = (F(1, 2) ** (t + 1) - F(-1, 2) ** (t + 1)) / (t + 1)
                if w != 0:
                    tot = tot + arr[k, i, t] * (float(w) if env_is_replay[0] else w)
    return tot


env_is_replay = [False]


def body_sweep(env):
    """Sum over the steps of dz * (linear power returned by get_power_sweep) = sum over the power cells
    of avg_power * cell height, for any placement of the planes inside the cells."""
    env_is_replay[0] = env.mode == 'replay'
    steps = env.params['steps']              # steps per power cell
    zfm = env.params['zfm']                  # power mesh boundaries (cm), concrete
    lo_idx, hi_idx = env.params['bundle']    # plane indices of the bundle bounds
    nterm = env.params['nterm']
    comps = env.params['comps']
    ncell = len(zfm) - 1
    ident = lambda x, decimals=0: x          # noqa
    with env.patch(MODS, overrides={'around': ident, 'round': ident}):
        env.stub('np.around(x, 10|12) is the identity: planes and power-mesh boundaries are representable on the rounding grid')
        # planes (cm): cell boundaries plus steps[k]-1 interior planes per cell
        planes = [zfm[0]]
        for k in range(ncell):
            inner = [env.real('plane_c%d_%d' % (k, j), lo=zfm[k], hi=zfm[k + 1], hi_strict=True) for j in range(steps[k] - 1)]
            prev = zfm[k]
            for p in inner:
                env.assume(p - prev >= 1e-6)
                prev = p
            if inner:
                env.assume(zfm[k + 1] - prev >= 1e-6)
            planes += inner + [zfm[k + 1]]
        prof = _profiles(env, ncell, comps, nterm)
        avg = np.empty(ncell, dtype=object)
        for k in range(ncell):
            avg[k] = _closed_avg(prof, nterm, k)
        if env.mode == 'replay':
            avg = avg.astype(float)
        rod = [planes[lo_idx], planes[hi_idx]]
        ap = pw.AssemblyPower({k: (None if v is None else v.copy()) for k, v in prof.items()}, avg.copy(), list(zfm), list(rod))
        # what the reactor hands over: midpoints and steps in metres
        zm = np.empty(len(planes) - 1, dtype=object)
        dz = np.empty(len(planes) - 1, dtype=object)
        for i in range(len(planes) - 1):
            zm[i] = (planes[i] + planes[i + 1]) / 2 / 100
            dz[i] = (planes[i + 1] - planes[i]) / 100
        if env.mode == 'replay':
            zm, dz = zm.astype(float), dz.astype(float)
        ap.presweep_setup(zm, dz)
        deposited = 0.0
        for i in range(len(dz)):
            p = ap.get_power_sweep()
            for kk in ('pins', 'duct', 'cool'):
                if p[kk] is not None:
                    deposited = deposited + dz[i] * _sum(p[kk])
            if p['refl'] is not None:
                deposited = deposited + dz[i] * p['refl']
        assigned = _sum(avg[k] * (zfm[k + 1] - zfm[k]) for k in range(ncell))
        env.eq('power deposited over the sweep = integral of the input profile', deposited, assigned, tol=1e-9,
               key='deposited_ne_assigned:' + env.params['kind'])
        env.eq('calculate_total_power = integral of the input profile', ap.calculate_total_power(), assigned, tol=1e-9)


def body_integrate(env):
    """power._integrate against the closed form sum c_t ((1/2)^(t+1) - (-1/2)^(t+1)) / (t+1)."""
    env_is_replay[0] = env.mode == 'replay'
    nterm = env.params['nterm']
    with env.patch(MODS):
        prof = {}
        for comp, n in (('pins', 2), ('duct', 1), ('cool', 1)):
            arr = np.empty((2, n, nterm), dtype=object)
            for k in range(2):
                for i in range(n):
                    for t in range(nterm):
                        arr[k, i, t] = env.real('%s_%d_%d_%d' % (comp, k, i, t), lo=-1e5, hi=1e5)
            prof[comp] = arr.astype(float) if env.mode == 'replay' else arr
        out = pw._integrate(prof['pins'], prof['duct'], prof['cool'], nterm)
        for k in range(2):
            env.eq('cell %d: _integrate = closed form' % k, out[k], _closed_avg(prof, nterm, k), tol=1e-9)


def body_scale(env):
    """Reactor._setup_scale_asm_power: totals sum to requested * scale; every profile scaled alike."""
    with env.patch(MODS):
        nasm = env.params['nasm']
        user = env.params['user_total']
        plist, orig = [], []
        for a in range(nasm):
            comp = {}
            o = {}
            for k, n in (('pins', 2), ('duct', 1), ('cool', 1)):
                arr = np.empty((1, n, 2), dtype=object)
                for i in range(n):
                    for t in range(2):
                        arr[0, i, t] = env.real('a%d_%s_%d_%d' % (a, k, i, t), lo=-1e5, hi=1e5)
                arr = arr.astype(float) if env.mode == 'replay' else arr
                comp[k] = arr
                o[k] = arr.copy()
            avgp = np.array([env.pos('a%d_avg' % a, hi=1e5)], dtype=object)
            if env.mode == 'replay':
                avgp = avgp.astype(float)
            tot = env.pos('a%d_total' % a, hi=1e9)
            plist.append([comp, avgp, tot])
            orig.append((o, avgp.copy(), tot))
        plist.insert(1, [])                       # an undefined position
        pcalc = _sum(o[2] for o in orig)
        ptot = env.pos('requested_total_power', hi=1e10) if user else None
        sc = env.pos('power_scaling_factor', hi=100)
        env.assume(env.lor(sc - 1 >= 0.001, 1 - sc >= 0.001))
        out, core_total = rm.Reactor._setup_scale_asm_power(plist, pcalc, ptot, sc)
        live = [x for x in out if not (isinstance(x, list) and len(x) == 0)]
        env.eq('reported core power = requested power * scaling factor', core_total, (ptot if user else pcalc) * sc, tol=1e-9)
        factor = (ptot / pcalc if user else 1.0) * sc
        env.eq('assembly totals sum to requested power * scaling factor', _sum(x[2] for x in live),
               (ptot if user else pcalc) * sc, tol=1e-9)
        for a, x in enumerate(live):
            env.eq('assembly %d: total scaled by the common factor' % a, x[2], orig[a][2] * factor, tol=1e-9)
            env.eq('assembly %d: average profile scaled by the common factor' % a, x[1][0], orig[a][1][0] * factor, tol=1e-9)
            for k in ('pins', 'duct', 'cool'):
                for idx in np.ndindex(x[0][k].shape):
                    env.eq('assembly %d: %s coefficient %s scaled by the common factor' % (a, k, idx), x[0][k][idx],
                           orig[a][0][k][idx] * factor, tol=1e-9)


def body_linearity(env):
    """Constant properties: scaling the power and every temperature excess over the inlet by s scales every temperature
    rise of one real step by s (self-composition over the real region sub-steps; induction over the steps gives the sweep)."""
    from harness import symregion as SR
    import copy as _copy
    n, nduct = env.params['n_ring'], env.params['n_duct']
    with env.patch(SR.MODS):
        r = SR.sym_rodded(env, n, nduct)
        sc = r.subchannel
        nsc, nd = sc.n_sc['coolant']['total'], sc.n_sc['duct']['total']
        T0 = env.real('T_inlet', lo=300, hi=1000)
        s_ = env.pos('power_scale', hi=10)
        dz = env.pos('dz', hi=1)

        def vec(nm, k, lo=None, hi=None):
            a = np.empty(k, dtype=object)
            for i in range(k):
                a[i] = env.real('%s%d' % (nm, i), lo=lo, hi=hi, lo_strict=False)
            return a.astype(float) if env.mode == 'replay' else a
        qp, qc, qd = vec('q_pin', r.n_pin, 0, 1e6), vec('q_cool', nsc, 0, 1e5), vec('q_duct', nduct * nd, 0, 1e5)
        tg = vec('Tgap', nd, 200, 3000)
        hg = vec('htc_gap', nd, 1, 1e7)
        r2 = _copy.copy(r)
        r2.temp = {k: T0 + s_ * (v - T0) for k, v in r.temp.items()}
        r2.ebal = {k: (v.copy() if hasattr(v, 'copy') else v) for k, v in r.ebal.items()}
        base = {k: v.copy() for k, v in r.temp.items()}
        d1 = r._calc_coolant_int_temp(dz, qp, qc)
        d2 = r2._calc_coolant_int_temp(dz, s_ * qp, s_ * qc)
        for i in range(nsc):
            env.eq('coolant cell %d: temperature rise scales with the power' % i, d2[i], s_ * d1[i], tol=1e-9, key='not_linear_in_power')
        if nduct > 1:
            b1, b2 = r._calc_coolant_byp_temp(dz), r2._calc_coolant_byp_temp(dz)
            for g in range(r.n_bypass):
                for c in range(nd):
                    env.eq('bypass %d cell %d: temperature rise scales with the power' % (g, c), b2[g, c], s_ * b1[g, c], tol=1e-9,
                           key='not_linear_in_power')
        r._calc_duct_temp(qd, tg, hg, False)
        r2._calc_duct_temp(s_ * qd, T0 + s_ * (tg - T0), hg, False)
        for w in range(nduct):
            for c in range(nd):
                env.eq('duct %d mid-wall cell %d: excess over the inlet scales with the power' % (w, c), r2.temp['duct_mw'][w, c] - T0,
                       s_ * (r.temp['duct_mw'][w, c] - T0), tol=1e-9, key='not_linear_in_power')


def body_timepoints(env):
    """Public path, several time points (enumeration, no symbolic dimension): a Reactor built for time point k of an input that
    lists one user power file per time point carries, in every assembly, the power of file k -- total and delivered over a real
    sweep -- integrated here from the numbers written to that file."""
    import os
    import shutil
    import tempfile
    from symx import geninp, npshim
    import dassh
    ntp = env.params['ntp']
    d = tempfile.mkdtemp(prefix='dassh-verif-c03.')
    try:
        asms = {'a': geninp.default_asm(2), 'b': geninp.default_asm(3, P=0.0052, D=0.0042, Dw=0.0008)}
        assign = [('a', 1, 1, 'FLOWRATE=0.4'), ('b', 2, 1, 'FLOWRATE=0.5'), ('a', 2, 3, 'FLOWRATE=0.3')]
        L = 0.05
        lin = [(lambda k, *, t=t: 1000.0 * (1 + 0.37 * t) * (1 + 0.1 * k)) for t in range(ntp)]
        other = [10.0 * (1 + 0.5 * t) for t in range(ntp)]
        for t in range(ntp):
            inp = geninp.write_case(d, asms, assign, gap_model='none', core_len=L, pin_power=lin[t], other_power=other[t])
            os.replace(os.path.join(d, 'power.csv'), os.path.join(d, 'power_t%d.csv' % t))
        txt = open(inp).read().replace('user_power = power.csv', 'user_power = ' + ', '.join('power_t%d.csv' % t for t in range(ntp)))
        open(inp, 'w').write(txt)
        res = []
        with npshim.unpatched():
            for t in range(ntp):
                r = dassh.Reactor(dassh.DASSH_Input(inp), path=os.path.join(d, 'out%d' % t), write_output=False, timestep=t)
                r.temperature_sweep()
                for a in r.assemblies:
                    nring = a.rodded.n_ring
                    npin = 3 * nring * (nring - 1) + 1
                    nsc = a.rodded.subchannel.n_sc['coolant']['total']
                    nd = a.rodded.subchannel.n_sc['duct']['total']
                    want = L * (sum(lin[t](k) for k in range(npin)) + other[t] * (nsc + nd))
                    got = float(a.total_power)
                    dlv = float(sum(v for v in a._power_delivered.values()))
                    res.append((t, a.id, want, got, dlv))
    finally:
        shutil.rmtree(d, ignore_errors=True)
    for t, aid, want, got, dlv in res:
        env.holds('time point %d, assembly %d: assigned power is that of the power file of this time point' % (t, aid),
                  abs(got - want) <= 1e-9 * want, key='power_of_another_time_point')
        env.holds('time point %d, assembly %d: power delivered over the sweep is that of the power file of this time point' % (t, aid),
                  abs(dlv - want) <= 1e-9 * want, key='power_of_another_time_point')


def instances(tier):
    inst = []
    zfm2 = [0.0, 10.0, 25.0]
    zfm3 = [0.0, 10.0, 25.0, 30.0]
    comps_all = {'pins': 2, 'duct': 2, 'cool': 1}
    comps_pin = {'pins': 2, 'duct': 0, 'cool': 0}
    cases = []
    # (kind, zfm, steps per cell, bundle (lo plane idx, hi plane idx))
    cases.append(('bundle = whole core', zfm2, (2, 2), (0, 4)))
    cases.append(('bundle bounds on power-cell boundaries', zfm3, (2, 2, 1), (2, 4)))
    cases.append(('bundle starts strictly inside a power cell', zfm2, (2, 2), (1, 4)))
    cases.append(('bundle ends strictly inside a power cell', zfm2, (2, 3), (0, 4)))
    cases.append(('bundle strictly inside one power cell', zfm2, (1, 3), (2, 3)))
    if tier == 'thorough':
        cases.append(('bundle = whole core, 3 cells', zfm3, (3, 2, 2), (0, 7)))
        cases.append(('bundle starts and ends inside power cells', zfm3, (2, 2, 2), (1, 5)))
        cases.append(('bundle starts strictly inside a power cell (3 steps)', zfm2, (3, 3), (2, 6)))
    for kind, zfm, steps, bundle in cases:
        variants = [(comps_all, 'pins+duct+coolant'), (comps_pin, 'pins only')]
        if kind.startswith('bundle starts strictly inside a power cell'):
            variants.append(({'pins': 1, 'duct': 1, 'cool': 2}, 'pin+duct+2 coolant'))
        for comps, cn in variants:
            for nterm in (1, 2):
                if tier == 'quick' and cn == 'pins only' and nterm == 1:
                    continue
                if tier == 'quick' and len(zfm) > 3 and cn != 'pins only':
                    continue
                inst.append(dict(label='sweep[%s; %s; terms=%d]' % (kind, cn, nterm), body=body_sweep,
                                 params={'kind': kind, 'zfm': zfm, 'steps': steps, 'bundle': bundle, 'nterm': nterm, 'comps': comps},
                                 max_paths=256, max_depth=200, timeout_ms=60000))
    for nterm in (1, 2, 3) + ((4,) if tier == 'thorough' else ()):
        inst.append(dict(label='integrate[terms=%d]' % nterm, body=body_integrate, params={'nterm': nterm}))
    for nasm in (1, 2):
        for user in (False, True):
            inst.append(dict(label='scale[assemblies=%d,requested_total=%s]' % (nasm, user), body=body_scale,
                             params={'nasm': nasm, 'user_total': user}))
    for n, d in (((2, 1), (2, 2)) if tier == 'quick' else ((2, 1), (2, 2), (3, 1), (3, 2), (4, 1))):
        inst.append(dict(label='linearity[rings=%d,ducts=%d]' % (n, d), body=body_linearity, params={'n_ring': n, 'n_duct': d}, timeout_ms=120000))
    for ntp in (2, 3):
        inst.append(dict(label='time-points[%d user power files]' % ntp, body=body_timepoints, params={'ntp': ntp}, check_vacuity=False))
    return inst


def main():
    a = runner.main_args()
    inst = runner.select(instances(a.tier), a.only)
    runner.run_check(
        'C03', inst, a.tier,
        explanation=('A real AssemblyPower is built from symbolic non-negative polynomial profiles; presweep_setup and the sequence '
                     'of get_power_sweep calls of a sweep run for an arbitrary placement of the axial planes inside each power cell '
                     'and for each placement of the pin-bundle bounds relative to the power mesh; deposited = assigned is one SMT query '
                     'per configuration.  _integrate against its closed form; core normalisation/scaling of all profiles.'),
        bounds={'power cells': '2..3', 'steps per power cell': '1..3', 'polynomial terms': '1..2 (sweep), 1..3(4) (_integrate)',
                'components': 'pins(2) + duct(2) + coolant(1), pin + duct + coolant(2), pins only', 'bundle bounds': 'whole core / on cell boundaries / strictly inside a cell'},
        outside=['CSV parsing and VARPOW/binary flux power (claim starts at the parsed arrays)',
                 'negative-power clipping (profiles assumed non-negative on the cell)', 'linearity over the whole sweep (one real step is claimed: linearity[...] instances; the sweep follows by induction with frozen properties)'],
        level_assumptions=['profiles a + b z* with a >= |b|/2 (non-negative on [-1/2, 1/2])',
                           'axial planes contain the power-mesh boundaries and the bundle bounds (C05)'])


if __name__ == '__main__':
    main()
