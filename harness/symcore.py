"""Shared fixtures for the core-level harnesses (C02, C04-gap, C07-core, C09): real Reactor
objects built through the public path (generated input + user-power CSV -> DASSH_Input ->
Reactor), cached per layout; a helper makes the *state* of a copy of the real Core symbolic."""
import copy
import os
import shutil
import tempfile

import numpy as np

from symx import geninp

import dassh

FTF = (0.026, 0.028)
TYPES = {
    'a2': dict(n=2, ftf=FTF),
    'a3': dict(n=3, P=0.0052, D=0.0042, Dw=0.0008, ftf=FTF),
    'b3': dict(n=3, P=0.0050, D=0.0040, Dw=0.0008, ftf=FTF),      # same ring count as a3, smaller pitch
    'a4': dict(n=4, P=0.0037, D=0.0030, Dw=0.0005, ftf=FTF),
    'ur': dict(n=2, ftf=FTF, lowfid='simple'),
    'u6': dict(n=2, ftf=FTF, lowfid='6node'),
    'dd': dict(n=2, P=0.0062, D=0.0050, Dw=0.0008, ftf=(0.019, 0.021, 0.026, 0.028)),
    # pin bundle with an unrodded region above it (core length of the layouts is 0.05 m)
    'au': dict(n=3, P=0.0052, D=0.0042, Dw=0.0008, ftf=FTF, axial=[('upper', 0.03, 0.05, 0.3)]),
    'al': dict(n=3, P=0.0052, D=0.0042, Dw=0.0008, ftf=FTF, axial=[('lower', 0.0, 0.02, 0.3), ('upper', 0.04, 0.05, 0.3)]),
    # wall faces listed outer-first (the reader and the regions accept any order)
    'a2r': dict(n=2, ftf=tuple(reversed(FTF))),
    'ddr': dict(n=2, P=0.0062, D=0.0050, Dw=0.0008, ftf=(0.026, 0.028, 0.019, 0.021)),
    # double-ducted assemblies on the low-fidelity models (walls of different thickness)
    'du': dict(n=2, P=0.0062, D=0.0050, Dw=0.0008, ftf=(0.019, 0.021, 0.0265, 0.028), lowfid='simple'),
    'd6': dict(n=2, P=0.0062, D=0.0050, Dw=0.0008, ftf=(0.019, 0.021, 0.0265, 0.028), lowfid='6node'),
}
# positions of a 7-position core: (ring, pos)
POS7 = [(1, 1), (2, 1), (2, 2), (2, 3), (2, 4), (2, 5), (2, 6)]
LAYOUTS = {
    'one-a2': [('a2', 1, 1)],
    'two-a2-a3': [('a2', 1, 1), ('a3', 2, 1)],
    'three-a2-a3-ur': [('a2', 1, 1), ('a3', 2, 1), ('ur', 2, 2)],
    'three-a3-dd-u6': [('a3', 1, 1), ('dd', 2, 3), ('u6', 2, 4)],
    'seven-mixed': [('a2', 1, 1), ('a3', 2, 1), ('ur', 2, 2), ('a2', 2, 3), ('a3', 2, 4), ('a2', 2, 5), ('ur', 2, 6)],
    'seven-a2': [('a2', r, p) for (r, p) in POS7],
    'six-hole': [('a2', 1, 1), ('a3', 2, 1), ('a2', 2, 2), ('a3', 2, 4), ('a2', 2, 5), ('a3', 2, 6)],
    'ring-no-centre': [('a2', 2, 1), ('a3', 2, 2), ('a2', 2, 3)],
    # finest mesh in the centre, two other mesh kinds alternating around it
    # equal cell counts, different pitches on a shared side (square but non-identity duct<->gap maps)
    'two-au-a2': [('au', 1, 1), ('a2', 2, 1)],
    'three-al-au-a2': [('al', 1, 1), ('au', 2, 1), ('a2', 2, 3)],
    'three-ur-u6-a2': [('ur', 1, 1), ('u6', 2, 1), ('a2', 2, 2)],      # two neighbouring assemblies without a pin mesh
    'two-a2r-a3': [('a2r', 1, 1), ('a3', 2, 1)],
    'three-ddr-a3-a2r': [('ddr', 1, 1), ('a3', 2, 1), ('a2r', 2, 2)],
    'three-a2-du-d6': [('a2', 1, 1), ('du', 2, 1), ('d6', 2, 2)],
    'three-a3-b3-a2': [('a3', 1, 1), ('b3', 2, 1), ('a2', 2, 2)],
    'seven-alt': [('a4', 1, 1), ('a3', 2, 1), ('a2', 2, 2), ('a3', 2, 3), ('a2', 2, 4), ('a3', 2, 5), ('a2', 2, 6)],
    'five-alt': [('a4', 1, 1), ('a3', 2, 1), ('a2', 2, 2), ('a3', 2, 4), ('a2', 2, 5)],
    'nineteen-a2': [('a2', 1, 1)] + [('a2', 2, p) for p in range(1, 7)] + [('a2', 3, p) for p in range(1, 13)],
    # 19-position grid, sparse: centre, part of ring 2, three positions of ring 3 (one at a ring corner)
    'nineteen-sparse': [('a2', 1, 1), ('a3', 2, 1), ('ur', 2, 2), ('a2', 2, 4), ('a3', 3, 1), ('a2', 3, 2), ('ur', 3, 6)],
}
_CACHE = {}


def rotate_layout(entries):
    """The same loading pattern turned by one position per ring side (60 degrees about the core centre)."""
    out = []
    for (t, r, p) in entries:
        out.append((t, r, p) if r == 1 else (t, r, ((p - 1 + (r - 1)) % (6 * (r - 1))) + 1))
    return out


def build_reactor(layout, gap_model='flow', adiabatic=False, **case):
    """layout: a key of LAYOUTS or an explicit tuple of (type, ring, position) entries."""
    if not isinstance(layout, str):
        layout = tuple(tuple(e) for e in layout)
        entries = list(layout)
    else:
        entries = LAYOUTS[layout]
    key = (layout, gap_model, tuple(sorted((k, repr(v)) for k, v in case.items())))
    if key in _CACHE:
        return _CACHE[key]
    d = tempfile.mkdtemp(prefix='dassh-verif-core.')
    try:
        names = sorted(set(t for t, _, _ in entries))
        asms = {t: geninp.default_asm(**TYPES[t]) for t in names}
        assign = [(t, r, p, 'FLOWRATE=%g' % (0.3 + 0.05 * i)) for i, (t, r, p) in enumerate(entries)]
        inp = geninp.write_case(d, asms, assign, gap_model=gap_model, **dict({'core_len': 0.05}, **case))
        from symx import npshim
        with npshim.unpatched():
            r = dassh.Reactor(dassh.DASSH_Input(inp), path=os.path.join(d, 'out'), write_output=False)
    finally:
        shutil.rmtree(d, ignore_errors=True)
    _CACHE[key] = r
    return r


class GapMat:
    def __init__(self, **kw):
        self.temperature = 623.15
        for k, v in kw.items():
            setattr(self, k, v)

    def update(self, T):
        pass


def sym_core(env, r, tag='', sym_wp=True):
    """Copy of r.core whose state is symbolic: gap temperatures, film coefficients, gap coolant
    properties, per-cell gap flows, and the conduction resistances (one symbol per adjacent pair:
    GAPGEOM symmetric, proved by C09).  Geometry tables (asm wp) stay the constructed floats: they
    enter both sides of every identity through the same numbers."""
    c = copy.copy(r.core)
    t = tag
    n = c.n_sc
    obj = env.mode == 'sym'

    def arr(vals):
        a = np.empty(len(vals), dtype=object)
        for i, v in enumerate(vals):
            a[i] = v
        return a if obj else a.astype(float)
    c.coolant_gap_temp = arr([env.real('%sTgap%d' % (t, i), lo=200, hi=3000, nominal=650.0 + 3 * i) for i in range(n)])
    c.coolant_gap_params = dict(r.core.coolant_gap_params)
    c.coolant_gap_params['htc'] = arr([env.pos('%shtc_gap%d' % (t, i), hi=1e7, nominal=3e4 + 10 * i) for i in range(n)])
    c.gap_coolant = GapMat(heat_capacity=env.pos(t + 'cp_gap', hi=1e6, nominal=1275.0),
                           thermal_conductivity=env.pos(t + 'k_gap', hi=1e4, nominal=75.0),
                           density=850.0, viscosity=2.5e-4)
    c._update_coolant_gap_params = lambda *a, **k: None
    env.stub('Core._update_coolant_gap_params is a no-op: gap film coefficients and properties are arbitrary positive values frozen over the step')
    mfr = [env.pos('%smfr_gap%d' % (t, i), hi=1e3, actual=float(r.core._sc_mfr[i])) for i in range(n)]
    c._sc_mfr = arr(mfr)
    c._inv_sc_mfr = arr([1 / m for m in mfr])
    # conduction: one resistance symbol per unordered adjacent pair
    c.d_gap = env.pos(t + 'd_gap', hi=1, actual=float(r.core.d_gap))
    L = np.full(r.core.gap_params['L'].shape, 0.0, dtype=object)
    pair = {}
    adj = r.core._sc_adj
    for i in range(n):
        for j in range(3):
            k = adj[i, j] - 1
            if k < 0:
                continue
            key = (min(i, k), max(i, k))
            if key not in pair:
                pair[key] = env.pos('%sL_%d_%d' % (t, key[0], key[1]), hi=10, actual=float(r.core.gap_params['L'][i, j]))
            L[i, j] = pair[key]
    c.gap_params = dict(r.core.gap_params)
    c.gap_params['L'] = L if obj else L.astype(float)
    # contact lengths between duct cells and gap cells: symbolic (sums of concrete floats are rounded
    # sums, which must not be mixed into exact identities); the convection constants are rebuilt from
    # them by the real _make_conv_mask
    aadj = r.core._asm_sc_adj
    wp = np.full(aadj.shape, 0.0, dtype=object)
    for a in range(aadj.shape[0]):
        for i in range(aadj.shape[1]):
            if aadj[a, i] > 0 and not sym_wp:
                wp[a, i] = float(r.core.gap_params['asm wp'][a, i])
            elif aadj[a, i] > 0:
                wp[a, i] = env.pos('%swp_%d_%d' % (t, a, i), hi=10, actual=float(r.core.gap_params['asm wp'][a, i]))
    c.gap_params['asm wp'] = wp if obj else wp.astype(float)
    model = c.model
    c.model = 'flow' if model is None else model
    c._make_conv_mask()
    c.model = model
    R = np.full(L.shape, 0.0, dtype=object)
    for i in range(n):
        for j in range(3):
            if adj[i, j] - 1 >= 0:
                R[i, j] = c.d_gap / L[i, j]
    c._Rcond = R if obj else R.astype(float)
    c.ebal = {'asm': (np.full(r.core._asm_sc_adj.shape, 0.0, dtype=object) if obj else np.zeros(r.core._asm_sc_adj.shape))}
    return c
