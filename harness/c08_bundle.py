"""C08 -- bundle topology and geometry are well-formed for every ring count.

Part A (symbolic geometry): the real region_rodded.calculate_geometry runs with symbolic pin
pitch, pin and wire diameter, wire pitch and duct flat-to-flats (sqrt(3) and pi are symbolic
constants with their defining axioms); area tiling of the hexagon, of every duct wall and every
bypass annulus, and the GEOM invariant used by C01/C04/C11 are SMT queries.  Ring counts are
enumerated (they only enter through integer counts).

Part B (topology): for each ring count and duct count the index tables built by the real
Subchannel / PinLattice constructors are asserted as finite-domain constraints and the
universally quantified statements (adjacency symmetric, neighbour count per type, pin <->
subchannel incidence, pin heat fractions sum to one) are decided by the solver with the
subchannel / pin index as a solver variable.  This part has no continuous symbolic dimension
(ring and duct counts are the only inputs); it is an exhaustive enumeration of the
configuration space discharged through the solver and is reported as such.
"""
import fractions

import numpy as np
import z3

from symx import runner, core, fixtures
from symx.core import Sym

import dassh.region_rodded as rrm
import dassh.subchannel as scm
import dassh.pin as pinm

MODS = [rrm]
F = fractions.Fraction


def counts(n):
    return [6 * (n - 1) ** 2, 6 * (n - 1), 6]


def body_geometry(env):
    n = env.params['n_ring']
    nduct = env.params['n_duct']
    se2 = env.params['se2']
    wire = env.params['wire']
    with env.patch(MODS) as snp:
        if env.mode == 'sym':
            S = Sym(z3.Real('SQRT3'))
            core.CTX.assumptions += [S.e > z3.RealVal('1.732'), S.e < z3.RealVal('1.7321'), S.e * S.e == 3]
            PI = Sym(z3.Real('PI'))
            core.CTX.assumptions += [PI.e > z3.RealVal('3.14159'), PI.e < z3.RealVal('3.1416')]
            snp.__dict__['pi'] = PI
            extra = {(rrm, '_sqrt3'): S, (rrm, '_sqrt3over3'): S / 3, (rrm, '_inv_sqrt3'): 1 / S}
        else:
            S, PI = 3 ** 0.5, np.pi
            extra = {}
        with env.patch([], sym_extra=extra):
            P = env.pos('pin_pitch', hi=1)
            D = env.pos('pin_diameter', hi=1)
            Dw = env.pos('wire_diameter', hi=1) if wire else 0.0
            Pw = env.pos('wire_pitch', hi=10)
            env.assume(P >= D + Dw)                      # wire fits between pins (input reader contract)
            ftf = []
            clr = env.nonneg('clearance', hi=1)          # pins fit in the duct (constructor contract)
            x = S * (n - 1) * P + D + 2 * Dw + clr
            for i in range(nduct):
                t = env.pos('wall%d' % i, hi=1)
                ftf.append([x, x + 2 * t])
                x = x + 2 * t
                if i < nduct - 1:
                    x = x + 2 * env.pos('bypass%d' % i, hi=1)
            nsc = np.array(counts(n))
            g = rrm.calculate_geometry(n, P, D, Pw, Dw, ftf, nsc, se2)
        npin = 3 * n * (n - 1) + 1
        prm, d, L, duct = g['params'], g['d'], g['L'], g['duct_params']
        # cos(theta) as the code computes it
        if se2 or not wire:
            cos_t = 1.0
        else:
            cos_t = Pw / snp.sqrt(Pw ** 2 + (PI * (D + Dw)) ** 2)
        # ---- hexagon tiling
        flow = prm['area'][0] * nsc[0] + prm['area'][1] * nsc[1] + prm['area'][2] * nsc[2]
        solid = npin * (PI * D * D / 4 + PI * Dw * Dw / 4 / cos_t)
        env.eq('flow areas + pin and wire sections tile the inner hexagon', flow + solid, S / 2 * ftf[0][0] * ftf[0][0],
               tol=1e-9)
        env.eq('bundle area is the sum of the subchannel areas', g['bundle_params']['area'], flow)
        for i in range(3):
            if not wire or se2:
                # with the wire cross-section divided by cos(theta) the flow areas are not positive for every admissible
                # input (short leads or wires much thicker than the pins make them negative: P = 1, D = Dw = H = 0.5); the
                # property does not claim positivity, and the reader does not bound the lead (observation, DESIGN 5)
                env.gt('flow area of type %d positive' % i, prm['area'][i], 0)
            env.eq('hydraulic diameter of type %d = 4A/P' % i, prm['de'][i] * prm['wp'][i], 4 * prm['area'][i])
        # ---- duct and bypass annuli
        for i in range(nduct):
            env.eq('duct %d: wall cells tile the annulus' % i,
                   nsc[1] * duct['area'][i][0] + 6 * duct['area'][i][1],
                   S / 2 * (ftf[i][1] ** 2 - ftf[i][0] ** 2), tol=1e-9)
            env.eq('duct %d: total area is the annulus' % i, duct['total area'][i], S / 2 * (ftf[i][1] ** 2 - ftf[i][0] ** 2))
            # GEOM invariant consumed by C11 / C01
            env.eq('duct %d: thickness = half the flat-to-flat difference' % i, duct['thickness'][i], (ftf[i][1] - ftf[i][0]) / 2)
            env.eq('duct %d: L/2 = thickness/2' % i, duct['L/2'][i], duct['thickness'][i] / 2)
            env.eq('duct %d: L^2/8 = thickness^2/8' % i, duct['L^2/8'][i], duct['thickness'][i] ** 2 / 8)
            env.eq('duct %d: wall distance d[wall] = thickness' % i, d['wall'][i], duct['thickness'][i])
            env.gt('duct %d: inner corner length positive' % i, d['wcorner'][i, 0], 0)
            env.gt('duct %d: corner length grows outward' % i, d['wcorner'][i, 1], d['wcorner'][i, 0])
            if i:
                env.gt('duct %d: inner corner length exceeds the outer one of duct %d' % (i, i - 1), d['wcorner'][i, 0], d['wcorner'][i - 1, 1])
            env.eq('duct %d: heated corner area = 2 t wc_out' % i, duct['q_area'][i][1], 2 * duct['thickness'][i] * d['wcorner'][i][1])
        if nduct > 1:
            byp = g['bypass_params']
            for i in range(nduct - 1):
                env.eq('bypass %d: cells tile the annulus' % i, nsc[1] * byp['area'][i, 0] + 6 * byp['area'][i, 1],
                       S / 2 * (ftf[i + 1][0] ** 2 - ftf[i][1] ** 2), tol=1e-9)
                env.eq('bypass %d: total area is the annulus' % i, byp['total area'][i], S / 2 * (ftf[i + 1][0] ** 2 - ftf[i][1] ** 2))
                env.eq('bypass %d: gap thickness' % i, d['bypass'][i], (ftf[i + 1][0] - ftf[i][1]) / 2)
                env.eq('bypass %d: corner cell area uses the corner lengths of both walls' % i, byp['area'][i, 1],
                       d['bypass'][i] * (d['wcorner'][i + 1, 0] + d['wcorner'][i, 1]))
                env.gt('bypass %d: centroid distances positive (edge-corner)' % i, L[5][6][i], 0)
                env.gt('bypass %d: centroid distances positive (corner-corner)' % i, L[6][6][i], 0)
                env.eq('bypass %d: edge-edge centroid distance = pitch' % i, L[5][5][i], P)
        # ---- GEOM: centroid distances symmetric, positive
        for i in range(3):
            for j in range(3):
                if isinstance(L[i][j], (int, float)) and L[i][j] == 0.0 and isinstance(L[j][i], (int, float)) and L[j][i] == 0.0:
                    continue
                env.eq('L[%d][%d] = L[%d][%d]' % (i, j, j, i), L[i][j], L[j][i])
                env.gt('L[%d][%d] > 0' % (i, j), L[i][j], 0)
        env.eq('edge-edge centroid distance = pin pitch', L[1][1], P)
        env.eq('pin-pin gap', d['pin-pin'], P - D)
        env.ge('pin-wall gap >= wire diameter (pins fit)', d['pin-wall'], Dw)
        env.eq('inner corner wall length: 2 wc_in * sqrt3 = D + 2 pin-wall', 2 * d['wcorner'][0, 0] * S, D + 2 * d['pin-wall'])


# ---------------------------------------------------------------------------- topology
_SUB = {}


def _subchannel(n, nduct):
    key = (n, nduct)
    if key not in _SUB:
        dm = fixtures.bundle_dims(n, nduct)
        ftf = [dm['ftf'][i:i + 2] for i in range(0, len(dm['ftf']), 2)]
        pl = pinm.PinLattice(n, dm['P'], dm['D'])
        sc = scm.Subchannel(n, dm['P'], dm['D'], pl.map, pl.xy, ftf)
        _SUB[key] = (pl, sc)
    return _SUB[key]


def _fn(name, arr):
    """Finite table as an uninterpreted function with point-wise definition."""
    arr = np.asarray(arr)
    if arr.ndim == 1:
        f = z3.Function(name, z3.IntSort(), z3.IntSort())
        cons = [f(i) == int(arr[i]) for i in range(arr.shape[0])]
    else:
        f = z3.Function(name, z3.IntSort(), z3.IntSort(), z3.IntSort())
        cons = [f(i, k) == int(arr[i, k]) for i in range(arr.shape[0]) for k in range(arr.shape[1])]
    return f, cons


def body_topology(env):
    n, nduct = env.params['n_ring'], env.params['n_duct']
    pl, sc = _subchannel(n, nduct)
    adj = sc.sc_adj
    typ = sc.type
    ntot, ncol = adj.shape
    nc = sc.n_sc['coolant']['total']
    npin = pl.n_pin
    want = counts(n)
    env.holds('subchannel counts 6(n-1)^2, 6(n-1), 6', [sc.n_sc['coolant'][k] for k in ('interior', 'edge', 'corner')] == want)
    env.holds('pin count 3n(n-1)+1', npin == 3 * n * (n - 1) + 1)
    env.holds('duct and bypass cells per wall: 6(n-1) edge + 6 corner',
              sc.n_sc['duct']['edge'] == 6 * (n - 1) and sc.n_sc['duct']['corner'] == 6
              and sc.n_sc['bypass']['edge'] == (6 * (n - 1) if nduct > 1 else 0)
              and sc.n_sc['bypass']['corner'] == (6 if nduct > 1 else 0)
              and sc.n_sc['total'] == nc + (2 * nduct - 1) * 6 * n)
    env.holds('table sizes', ntot == sc.n_sc['total'] and len(typ) == ntot and sc.pin_adj.shape == (npin, 6)
              and sc.rev_pin_adj.shape == (nc, 3))
    q = {0: F(1, 6), 1: F(1, 4), 2: F(1, 6)}
    if env.mode == 'sym':
        A, ca = _fn('adj', adj)
        T, ct = _fn('typ', typ)
        PA, cp = _fn('pin_adj', sc.pin_adj)
        RP, cr = _fn('rev_pin_adj', sc.rev_pin_adj)
        for c in ca + ct + cp + cr:
            core.CTX.assumptions.append(c)
        i = z3.Int('sc_index')
        env.inputs['sc_index'] = i
        core.CTX.assumptions += [i >= 0, i < ntot]
        p = z3.Int('pin_index')
        env.inputs['pin_index'] = p
        core.CTX.assumptions += [p >= 0, p < npin]
        B = lambda e: core.SymBool(e)       # noqa
        for k in range(ncol):
            j = A(i, k)
            env.holds('adjacency symmetric (column %d)' % k,
                      B(z3.Implies(j >= 0, z3.And(j < ntot, j != i, z3.Or([A(j, kk) == i for kk in range(ncol)])))))
            env.holds('adjacency entries are -1 or valid ids (column %d)' % k, B(z3.And(j >= -1, j < ntot)))
        # neighbour count per type
        ncool = z3.Sum([z3.If(z3.And(A(i, k) >= 0, A(i, k) < nc), 1, 0) for k in range(ncol)])
        nwall = z3.Sum([z3.If(z3.And(A(i, k) >= nc, T(A(i, k)) >= 3, T(A(i, k)) <= 4), 1, 0) for k in range(ncol)])
        nbyp = z3.Sum([z3.If(z3.And(A(i, k) >= nc, T(A(i, k)) >= 5), 1, 0) for k in range(ncol)])
        env.holds('interior subchannel: 3 coolant neighbours, no wall', B(z3.Implies(T(i) == 0, z3.And(ncool == 3, nwall == 0))))
        env.holds('edge subchannel: 3 coolant neighbours + 1 wall cell', B(z3.Implies(T(i) == 1, z3.And(ncool == 3, nwall == 1))))
        env.holds('corner subchannel: 2 coolant neighbours + 1 wall cell', B(z3.Implies(T(i) == 2, z3.And(ncool == 2, nwall == 1))))
        env.holds('bypass cell: 2 bypass neighbours + inner and outer wall', B(z3.Implies(T(i) >= 5, z3.And(nbyp == 2, nwall == 2, ncool == 0))))
        env.holds('wall cell: one coolant/bypass cell on each wetted side, two neighbouring wall cells',
                  B(z3.Implies(z3.And(T(i) >= 3, T(i) <= 4), z3.And(nwall == 2, ncool + nbyp >= 1, ncool + nbyp <= 2))))
        env.holds('neighbours differ in kind consistently: coolant links only among coolant, walls link coolant/bypass',
                  B(z3.Implies(i < nc, z3.And([z3.Implies(A(i, k) >= nc, z3.And(T(A(i, k)) >= 3, T(A(i, k)) <= 4)) for k in range(ncol)]))))
        # pins <-> subchannels
        si = z3.Int('coolant_index')
        env.inputs['coolant_index'] = si
        core.CTX.assumptions += [si >= 0, si < nc]
        npins_of = z3.Sum([z3.If(RP(si, k) >= 0, 1, 0) for k in range(3)])
        env.holds('interior subchannel touches 3 pins', B(z3.Implies(T(si) == 0, npins_of == 3)))
        env.holds('edge subchannel touches 2 pins', B(z3.Implies(T(si) == 1, npins_of == 2)))
        env.holds('corner subchannel touches 1 pin', B(z3.Implies(T(si) == 2, npins_of == 1)))
        for k in range(3):
            pp = RP(si, k)
            env.holds('pin listed for a subchannel lists that subchannel (slot %d)' % k,
                      B(z3.Implies(pp >= 0, z3.And(pp < npin, z3.Or([PA(pp, kk) == si for kk in range(6)])))))
        for k in range(6):
            ss = PA(p, k)
            env.holds('subchannel listed for a pin lists that pin (slot %d)' % k,
                      B(z3.Implies(ss >= 0, z3.And(ss < nc, z3.Or([RP(ss, kk) == p for kk in range(3)])))))
        frac = z3.Sum([z3.If(PA(p, k) < 0, z3.RealVal(0),
                             z3.If(T(PA(p, k)) == 1, z3.RealVal(q[1]), z3.RealVal(q[0]))) for k in range(6)])
        env.holds('every pin hands fractions 1/6, 1/4, 1/6 summing to one to its subchannels', B(frac == 1))
        distinct = z3.And([z3.Implies(z3.And(PA(p, a) >= 0, PA(p, b) >= 0), PA(p, a) != PA(p, b))
                           for a in range(6) for b in range(a + 1, 6)])
        env.holds('subchannels of a pin are distinct', B(distinct))
    else:
        i = int(env.values['sc_index'])
        p = int(env.values['pin_index'])
        si = int(env.values['coolant_index'])
        for k in range(ncol):
            j = adj[i, k]
            env.holds('adjacency symmetric (column %d)' % k, j < 0 or (j < ntot and j != i and i in adj[j]))
            env.holds('adjacency entries are -1 or valid ids (column %d)' % k, -1 <= j < ntot)
        nb = [x for x in adj[i] if x >= 0]
        ncool = sum(1 for x in nb if x < nc)
        nwall = sum(1 for x in nb if x >= nc and typ[x] in (3, 4))
        nbyp = sum(1 for x in nb if x >= nc and typ[x] >= 5)
        t = typ[i]
        env.holds('interior subchannel: 3 coolant neighbours, no wall', t != 0 or (ncool == 3 and nwall == 0))
        env.holds('edge subchannel: 3 coolant neighbours + 1 wall cell', t != 1 or (ncool == 3 and nwall == 1))
        env.holds('corner subchannel: 2 coolant neighbours + 1 wall cell', t != 2 or (ncool == 2 and nwall == 1))
        env.holds('bypass cell: 2 bypass neighbours + inner and outer wall', t < 5 or (nbyp == 2 and nwall == 2 and ncool == 0))
        env.holds('wall cell: one coolant/bypass cell on each wetted side, two neighbouring wall cells',
                  t not in (3, 4) or (nwall == 2 and 1 <= ncool + nbyp <= 2))
        env.holds('neighbours differ in kind consistently: coolant links only among coolant, walls link coolant/bypass',
                  i >= nc or all(typ[x] in (3, 4) for x in nb if x >= nc))
        rp = sc.rev_pin_adj
        npo = sum(1 for x in rp[si] if x >= 0)
        env.holds('interior subchannel touches 3 pins', typ[si] != 0 or npo == 3)
        env.holds('edge subchannel touches 2 pins', typ[si] != 1 or npo == 2)
        env.holds('corner subchannel touches 1 pin', typ[si] != 2 or npo == 1)
        for k in range(3):
            pp = rp[si, k]
            env.holds('pin listed for a subchannel lists that subchannel (slot %d)' % k, pp < 0 or (pp < npin and si in sc.pin_adj[pp]))
        for k in range(6):
            ss = sc.pin_adj[p, k]
            env.holds('subchannel listed for a pin lists that pin (slot %d)' % k, ss < 0 or (ss < nc and p in rp[ss]))
        fr = sum((q[1] if typ[x] == 1 else q[0]) for x in sc.pin_adj[p] if x >= 0)
        env.holds('every pin hands fractions 1/6, 1/4, 1/6 summing to one to its subchannels', fr == 1)
        l = [x for x in sc.pin_adj[p] if x >= 0]
        env.holds('subchannels of a pin are distinct', len(l) == len(set(l)))


def body_q_p2sc(env):
    """The heat fractions the region actually uses are 1/6, 1/4, 1/6 to 2e-15 (float literals)."""
    r = fixtures.make_rodded(env.params['n_ring'], 1)
    typ = r.subchannel.type
    ok = True
    for s_, v in enumerate(r._q_p2sc):
        exact = [F(1, 6), F(1, 4), F(1, 6)][typ[s_]]
        ok = ok and abs(F(repr(float(v))) - exact) <= exact * F(2, 10 ** 15)
    env.holds('q_p2sc entries are 1/6, 1/4, 1/6 by subchannel type (2e-15 relative)', ok)


def body_centroids(env):
    """Published centroid coordinates (Subchannel.xy): each ring of cells (coolant, every wall, every bypass gap) is mapped
    onto itself by a rotation of 60 degrees, and adjacent coolant subchannels are neighbours in space.  No symbolic
    dimension (the coordinates are floats of one constructed bundle): enumeration over ring and duct counts."""
    n, nduct = env.params['n_ring'], env.params['n_duct']
    r = fixtures.make_rodded(n, nduct, byp_ff=0.05 if nduct > 1 else None)
    sc = r.subchannel
    xy = np.asarray(sc.xy, dtype=float)
    nsc, nd = sc.n_sc['coolant']['total'], sc.n_sc['duct']['total']
    P = float(r.pin_pitch)
    c60, s60 = np.cos(np.pi / 3), np.sin(np.pi / 3)
    R = np.array([[c60, -s60], [s60, c60]])
    rings = [('coolant', 0, nsc)] + [('wall/bypass ring %d' % w, nsc + w * nd, nsc + (w + 1) * nd) for w in range(2 * nduct - 1)]
    env.holds('coordinates exist for every coolant, wall and bypass cell', xy.shape[0] == nsc + (2 * nduct - 1) * nd)
    for name, a, b in rings:
        pts = xy[a:b]
        img = pts @ R.T
        ok = True
        used = set()
        for p_ in img:
            d = np.hypot(pts[:, 0] - p_[0], pts[:, 1] - p_[1])
            j = int(np.argmin(d))
            ok = ok and d[j] < 1e-6 * P and j not in used
            used.add(j)
        env.holds('%s: centroids are six-fold symmetric' % name, bool(ok), key='centroids_not_symmetric')
    # every wall / bypass centroid lies at mid-thickness of its own annulus (distance from the axis along the nearest face
    # normal = mean of the two flat-to-flat half-sizes); the face normals are read off the corner cells of the first wall
    typ = np.asarray(sc.type)
    ring0, t0 = xy[nsc:nsc + nd], typ[nsc:nsc + nd]
    ang = np.arctan2(ring0[t0 == t0.max()][:, 1], ring0[t0 == t0.max()][:, 0])
    normals = np.array([[np.cos(a_ + np.pi / 6), np.sin(a_ + np.pi / 6)] for a_ in ang])
    ftf = np.sort(np.ravel(np.asarray(r.duct_ftf, dtype=float)))
    env.holds('six corner cells per wall', len(ang) == 6)
    for w in range(2 * nduct - 1):
        pts = xy[nsc + w * nd: nsc + (w + 1) * nd]
        proj = np.max(pts @ normals.T, axis=1)
        env.holds('wall/bypass ring %d: centroids at mid-thickness of their own annulus' % w,
                  bool(np.all(np.abs(proj - 0.25 * (ftf[w] + ftf[w + 1])) < 1e-9 * P)), key='centroids_disagree_with_adjacency')
    adj = sc.sc_adj
    far = 0
    for i in range(nsc):
        for j in adj[i][:3]:
            if 0 <= j < nsc and np.hypot(*(xy[i] - xy[j])) > 1.1 * P:
                far += 1
    env.holds('adjacent coolant subchannels are less than 1.1 pin pitches apart', far == 0, key='centroids_disagree_with_adjacency')
    # wall and bypass cells sit outside the coolant cell they are attached to, ring by ring further out
    for c in range(nd):
        rad = [float(np.hypot(*xy[nsc - nd + c]))] + [float(np.hypot(*xy[nsc + w * nd + c])) for w in range(2 * nduct - 1)]
        env.holds('cell column %d: coolant, wall and bypass centroids lie further out ring by ring' % c,
                  all(rad[k + 1] > rad[k] for k in range(len(rad) - 1)), key='centroids_disagree_with_adjacency')


def _flat(x, out, pre=''):
    if isinstance(x, dict):
        for k in sorted(x, key=str):
            _flat(x[k], out, pre + '/' + str(k))
    elif isinstance(x, (list, tuple)) and x and not np.isscalar(x[0]):
        for i, v in enumerate(x):
            _flat(v, out, pre + '/%d' % i)
    else:
        try:
            out[pre] = np.asarray(x, dtype=float)
        except (TypeError, ValueError):
            pass


def body_ftf_order(env):
    """The duct flat-to-flat list is an unordered set of wall faces for the reader (check_duct accepts any order and says the
    region set-up sorts it): the bundle the real constructor builds from a permuted list is the bundle it builds from the
    ascending list -- wall pairs, derived lengths, cell areas, hydraulic diameters, centroids.  Enumeration, no symbolic
    dimension; the identities themselves are proved on the ascending list by the geometry instances."""
    n, nduct, order = env.params['n_ring'], env.params['n_duct'], env.params['order']
    d = fixtures.bundle_dims(n, nduct)
    base = fixtures.make_rodded(n, nduct, byp_ff=0.05 if nduct > 1 else None, dims=d)
    perm = fixtures.make_rodded(n, nduct, byp_ff=0.05 if nduct > 1 else None, dims=dict(d, ftf=[d['ftf'][i] for i in order]))
    for nm in ('duct_ftf', 'd', 'params', 'bundle_params', 'bypass_params', 'duct_params', 'L', 'ht'):
        if not hasattr(base, nm):
            continue
        a, b = {}, {}
        _flat(getattr(base, nm), a)
        _flat(getattr(perm, nm), b)
        same = set(a) == set(b) and all(np.shape(a[k]) == np.shape(b[k]) and np.allclose(a[k], b[k], rtol=1e-12, atol=0, equal_nan=True)
                                        for k in a)
        env.holds('%s of the bundle does not depend on the order in which the wall faces are listed' % nm, bool(same),
                  key='geometry_depends_on_ftf_list_order')
    env.holds('centroids do not depend on the order in which the wall faces are listed',
              bool(np.allclose(np.asarray(base.subchannel.xy, dtype=float), np.asarray(perm.subchannel.xy, dtype=float), rtol=1e-12, atol=1e-15)),
              key='geometry_depends_on_ftf_list_order')


def body_cell_arrays(env):
    """The per-cell area arrays the step methods work with (set up from the per-type tables by the real constructor): every
    cell carries the area of its own type in its own ring -- interior coolant, every wall, every bypass gap -- and each ring of
    cells tiles its own annulus (walls and gaps have different thicknesses in the fixture).  Enumeration over ring and wall
    counts; the per-type tables themselves are the subject of the geometry instances."""
    n, nduct = env.params['n_ring'], env.params['n_duct']
    r = fixtures.make_rodded(n, nduct, byp_ff=0.05 if nduct > 1 else None)
    sc = r.subchannel
    typ = np.asarray(sc.type, dtype=int)
    nsc, nd = sc.n_sc['coolant']['total'], sc.n_sc['duct']['total']
    ftf = np.sort(np.ravel(np.asarray(r.duct_ftf, dtype=float)))
    hexa = lambda f: np.sqrt(3) / 2 * f * f      # noqa
    ai = np.asarray(r.area['coolant_int'], dtype=float)
    env.holds('interior coolant cells carry the area of their type',
              bool(np.allclose(ai, np.asarray(r.params['area'], dtype=float)[typ[:nsc]], rtol=1e-13, atol=0)), key='cell_area_of_another_ring')
    for w in range(nduct):
        aw = np.asarray(r.area['duct_mw'][w], dtype=float)
        env.holds('wall %d: cells tile the annulus of that wall' % w,
                  abs(float(aw.sum()) - (hexa(ftf[2 * w + 1]) - hexa(ftf[2 * w]))) <= 1e-12 * hexa(ftf[2 * w + 1]), key='cell_area_of_another_ring')
        env.holds('wall %d: total area is the sum of its cells' % w, abs(float(r.total_area['duct_mw'][w]) - float(aw.sum())) <= 1e-13 * float(aw.sum()),
                  key='cell_area_of_another_ring')
    for g in range(nduct - 1):
        ab = np.asarray(r.area['coolant_byp'][g], dtype=float)
        ann = hexa(ftf[2 * g + 2]) - hexa(ftf[2 * g + 1])
        env.holds('bypass gap %d: cells tile the annulus of that gap' % g, abs(float(ab.sum()) - ann) <= 1e-12 * hexa(ftf[2 * g + 2]),
                  key='cell_area_of_another_ring')
        env.holds('bypass gap %d: total area is the sum of its cells' % g,
                  abs(float(r.total_area['coolant_byp'][g]) - float(ab.sum())) <= 1e-13 * float(ab.sum()), key='cell_area_of_another_ring')
        tb = typ[nsc + (2 * g + 1) * nd: nsc + (2 * g + 2) * nd]
        env.holds('bypass gap %d: every cell carries the area of its type in that gap' % g,
                  bool(np.allclose(ab, np.asarray(r.bypass_params['area'][g], dtype=float)[tb - 5], rtol=1e-13, atol=0)), key='cell_area_of_another_ring')
    if nduct > 2:
        env.holds('fixture: the bypass gaps have different areas', abs(float(np.sum(r.area['coolant_byp'][0])) - float(np.sum(r.area['coolant_byp'][1]))) > 1e-9)


def instances(tier):
    inst = []
    rings = (2, 3, 4, 7) if tier == 'quick' else tuple(range(2, 21))
    for n in rings:
        for nduct in (1, 2, 3):
            for se2 in (False, True):
                for wire in (True, False):
                    if tier == 'quick' and (se2 or not wire) and n > 3:
                        continue
                    inst.append(dict(label='geometry[rings=%d,ducts=%d,se2=%s,wire=%s]' % (n, nduct, se2, wire), body=body_geometry,
                                     params={'n_ring': n, 'n_duct': nduct, 'se2': se2, 'wire': wire}, timeout_ms=120000))
    for n in ((2, 3, 4, 5, 6, 8) if tier == 'quick' else tuple(range(2, 15))):
        for nduct in (1, 2, 3):
            if tier == 'quick' and n > 5 and nduct != 2:
                continue
            if tier != 'quick' and n > 8 and nduct > 1:
                continue          # multi-duct tables beyond 8 rings take tens of minutes each (DESIGN 7)
            inst.append(dict(label='topology[rings=%d,ducts=%d]' % (n, nduct), body=body_topology,
                             params={'n_ring': n, 'n_duct': nduct}, timeout_ms=600000, check_vacuity=False))
    for n in ((2, 3, 5) if tier == 'quick' else (2, 3, 4, 5, 7, 9, 12)):
        for nduct in (1, 2, 3):
            inst.append(dict(label='centroids[rings=%d,ducts=%d]' % (n, nduct), body=body_centroids, params={'n_ring': n, 'n_duct': nduct},
                             check_vacuity=False))
    for n in (2, 3):
        for nduct, order in ((1, (1, 0)), (2, (2, 3, 0, 1)), (2, (3, 2, 1, 0)), (2, (0, 2, 1, 3)), (3, (4, 5, 2, 3, 0, 1)), (3, (5, 0, 3, 2, 1, 4))):
            inst.append(dict(label='ftf-order[rings=%d,ducts=%d,list order %s]' % (n, nduct, ''.join(map(str, order))), body=body_ftf_order,
                             params={'n_ring': n, 'n_duct': nduct, 'order': order}, check_vacuity=False))
    for n in ((2, 3) if tier == 'quick' else (2, 3, 5, 8)):
        for nduct in (1, 2, 3):
            inst.append(dict(label='cell-arrays[rings=%d,ducts=%d]' % (n, nduct), body=body_cell_arrays, params={'n_ring': n, 'n_duct': nduct},
                             check_vacuity=False))
    for n in (2, 5):
        inst.append(dict(label='heat-fractions[rings=%d]' % n, body=body_q_p2sc, params={'n_ring': n}, check_vacuity=False))
    return inst


def main():
    a = runner.main_args()
    inst = runner.select(instances(a.tier), a.only)
    runner.run_check(
        'C08', inst, a.tier,
        explanation=('Part A: calculate_geometry executed with symbolic dimensions (sqrt3, pi symbolic with axioms): tiling of the '
                     'hexagon / wall annuli / bypass annuli and the GEOM invariant are polynomial identities decided by z3.  '
                     'Part B: the index tables built by the real Subchannel/PinLattice constructors are asserted point-wise and '
                     'the universally quantified topology statements are decided with the subchannel / pin index as a solver '
                     'variable (finite-domain; exhaustive over the enumerated ring and duct counts).'),
        bounds={'ring counts': '2,3,4,7 geometry; 2..6,8 topology (quick) / geometry 2..20, topology 2..14 with one duct and 2..8 with 2-3 ducts (thorough)', 'ducts': '1..3',
                'dimensions': 'all admissible positive pitch/diameter/wire/wall/bypass/clearance values (pins fit, wire fits)',
                'SE2 flag': 'on/off', 'wire': 'with / without'},
        outside=['centroid coordinates: six-fold symmetry and agreement with the adjacency are concrete checks per enumerated bundle (centroids[...] instances: no symbolic dimension)',
                 'positivity of the wire-wrapped flow areas (not part of the statement; false for short wire leads or very thick wires, which the reader accepts)'],
        level_assumptions=['pin_pitch >= pin_diameter + wire_diameter; duct inner flat-to-flat >= sqrt3 (n-1) P + D + 2 Dw (constructor check)',
                           'sqrt3 in (1.732, 1.7321) and sqrt3^2 = 3; 3.14159 < pi < 3.1416; the float literals _sqrt3 etc. are replaced by these symbols'])


if __name__ == '__main__':
    main()
