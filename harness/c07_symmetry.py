"""C07 -- solutions are equivariant under hexagonal symmetries.

Self-composition over the real step code.  Two copies of one region share the symbolic derived
state (geometry, properties, correlated parameters); copy 2 carries the fields and powers of
copy 1 moved by the permutation that the *published centroid coordinates* (Subchannel.xy,
PinLattice.xy) induce for a rotation by k*60 degrees or for the mirror image (copy 2 of the
mirror takes its swirl donor column from a region really constructed with the opposite wire
direction).  The real sub-steps of RoddedRegion.calculate run on both copies and the solver is
asked whether any result of copy 2 can differ from the permuted result of copy 1.

Core part: two real Reactors are built (a layout and the same layout turned by 60 degrees about
the core centre); gap-cell coordinates are computed from Core.map_assembly_xy, the assembly
adjacency and the per-side cell bounds; the state of both cores is symbolic, tied together by
the induced permutations, and one real Core.calculate_gap_temperatures step / the steady gap
models / Reactor.axial_step run on both.

Real code: RoddedRegion._calc_coolant_int_temp, _calc_int_sc_power, _calc_coolant_byp_temp,
_calc_duct_temp, _calc_duct_power, calculate_pin_temperatures (coolant average),
MultiNodeHomogeneous.calculate; Core.calculate_gap_temperatures, _flow_model, _noflow_model,
_duct_average_model, adjacent_coolant_gap_temp/_htc, Reactor.axial_step; the index tables are
those built by the real constructors (Subchannel, PinLattice, Core.load, Reactor set-up).
"""
import copy

import numpy as np

from symx import runner, core
from harness.common import StubSelf
from harness import symregion as SR
from harness import symcore as SC

import dassh.region_rodded as rrm
import dassh.region as rgm
import dassh.region_unrodded as rum
import dassh.core as cm
import dassh.reactor as rm
import dassh.mesh_functions as mf

MODS = [rrm, rgm, rum]


# ---------------------------------------------------------------- permutations from coordinates
def _rot(k):
    a = k * np.pi / 3
    return np.array([[np.cos(a), -np.sin(a)], [np.sin(a), np.cos(a)]])


MIRROR = np.array([[1.0, 0.0], [0.0, -1.0]])


def perm_from_xy(src, dst, M, tol):
    """p with  M @ src[i] == dst[p[i]]  (None if the point set is not mapped onto itself)."""
    src = np.asarray(src, dtype=float)
    dst = np.asarray(dst, dtype=float)
    img = src @ M.T
    p = []
    for i in range(len(src)):
        d = np.hypot(dst[:, 0] - img[i, 0], dst[:, 1] - img[i, 1])
        j = int(np.argmin(d))
        if d[j] > tol:
            return None
        p.append(j)
    if sorted(p) != list(range(len(dst))):
        return None
    return p


def _vec(env, name, n, lo, hi, lo_strict=True):
    a = np.empty(n, dtype=object)
    for i in range(n):
        a[i] = env.real('%s%d' % (name, i), lo=lo, hi=hi, lo_strict=lo_strict)
    return a.astype(float) if env.mode == 'replay' else a


def _permuted(a, p):
    """b with b[..., p[i]] = a[..., i]"""
    b = np.empty_like(a)
    for i, j in enumerate(p):
        b[..., j] = a[..., i]
    return b


def _region_perms(env, r, r2, M, what):
    sc, sc2 = r.subchannel, r2.subchannel
    nsc = sc.n_sc['coolant']['total']
    nd = sc.n_sc['duct']['total']
    tol = 1e-6 * float(r.pin_lattice.xy[:, 0].max() - r.pin_lattice.xy[:, 0].min() + 1e-3)
    p_sc = perm_from_xy(sc.xy[:nsc], sc2.xy[:nsc], M, tol)
    p_pin = perm_from_xy(r.pin_lattice.xy, r2.pin_lattice.xy, M, tol)
    env.holds('%s maps the coolant subchannel centroids onto themselves' % what, p_sc is not None, key='centroids_not_symmetric')
    env.holds('%s maps the pin centres onto themselves' % what, p_pin is not None, key='centroids_not_symmetric')
    p_d = None
    for w in range(r.n_duct + r.n_bypass):
        s0 = nsc + w * nd
        pw = perm_from_xy(sc.xy[s0:s0 + nd], sc2.xy[s0:s0 + nd], M, tol)
        env.holds('%s maps the centroids of wall/bypass ring %d onto themselves' % (what, w), pw is not None, key='centroids_not_symmetric')
        if pw is None:
            env.stop()
        if p_d is None:
            p_d = pw
        env.holds('%s: wall/bypass ring %d is moved like ring 0' % (what, w), pw == p_d, key='centroids_not_symmetric')
    if p_sc is None or p_pin is None:
        env.stop()
    return p_sc, p_pin, p_d


def _second_region(env, r, mirror):
    """Copy 2: same symbolic derived state; for the mirror its index tables and swirl donor column
    come from a region really constructed with the opposite wire direction."""
    r2 = copy.copy(r)
    if mirror:
        other = 'counterclockwise' if r.wire_direction == 'clockwise' else 'clockwise'
        b2 = SR.base_region(env.params['n_ring'], env.params['n_duct'], other, 0.05)
        r2.subchannel = b2.subchannel
        r2.pin_lattice = b2.pin_lattice
        r2._adj_sw = b2._adj_sw
        r2.wire_direction = b2.wire_direction
        r2._duct_idx = b2._duct_idx
        ht = dict(r.ht)
        # index tables of the heat-transfer constants are rebuilt by the real set-up on copy 2
        r2.ht = ht
        r2._setup_ht_constants()
    r2.temp = {k: v.copy() for k, v in r.temp.items()}
    r2.ebal = {k: (v.copy() if hasattr(v, 'copy') else v) for k, v in r.ebal.items()}
    return r2


def body_rodded(env):
    n, nduct, ww = env.params['n_ring'], env.params['n_duct'], env.params['wwdir']
    k, mirror = env.params.get('k', 0), env.params.get('mirror', False)
    M = (_rot(k) @ MIRROR) if mirror else _rot(k)
    what = ('mirror image' + (' turned by %d deg' % (60 * k) if k else '')) if mirror else 'rotation by %d deg' % (60 * k)
    with env.patch(MODS):
        r = SR.sym_rodded(env, n, nduct, wwdir=ww)
        r2 = _second_region(env, r, mirror)
        p_sc, p_pin, p_d = _region_perms(env, r, r2, M, what)
        sc = r.subchannel
        nsc, nd = sc.n_sc['coolant']['total'], sc.n_sc['duct']['total']
        dz = env.pos('dz', hi=1)
        qp = _vec(env, 'q_pin', r.n_pin, 0, 1e6, lo_strict=False)
        qc = _vec(env, 'q_cool', nsc, 0, 1e5, lo_strict=False)
        qd = _vec(env, 'q_duct', nduct * nd, 0, 1e5, lo_strict=False)
        t_gap = _vec(env, 'Tgap', nd, 200, 3000)
        h_gap = _vec(env, 'htc_gap', nd, 0, 1e7)
        # copy 2 carries the moved fields
        r2.temp['coolant_int'] = _permuted(r.temp['coolant_int'], p_sc)
        r2.temp['duct_mw'] = _permuted(r.temp['duct_mw'], p_d)
        r2.temp['duct_surf'] = _permuted(r.temp['duct_surf'], p_d)
        if nduct > 1:
            r2.temp['coolant_byp'] = _permuted(r.temp['coolant_byp'], p_d)
        qp2, qc2 = _permuted(qp, p_pin), _permuted(qc, p_sc)
        qd2 = np.concatenate([_permuted(qd[w * nd:(w + 1) * nd], p_d) for w in range(nduct)])
        tg2, hg2 = _permuted(t_gap, p_d), _permuted(h_gap, p_d)
        # interior coolant
        d1 = r._calc_coolant_int_temp(dz, qp, qc)
        d2 = r2._calc_coolant_int_temp(dz, qp2, qc2)
        for i in range(nsc):
            env.eq('%s: coolant temperature rise of subchannel %d moves with the map' % (what, i), d2[p_sc[i]], d1[i], tol=1e-10,
                   key='coolant_not_equivariant')
        # bypass coolant
        if nduct > 1:
            b1 = r._calc_coolant_byp_temp(dz)
            b2 = r2._calc_coolant_byp_temp(dz)
            for g in range(r.n_bypass):
                for c in range(nd):
                    env.eq('%s: bypass %d cell %d moves with the map' % (what, g, c), b2[g, p_d[c]], b1[g, c], tol=1e-10,
                           key='bypass_not_equivariant')
        # duct walls
        r._calc_duct_temp(qd, t_gap, h_gap, False)
        r2._calc_duct_temp(qd2, tg2, hg2, False)
        for w in range(nduct):
            for c in range(nd):
                env.eq('%s: duct %d mid-wall cell %d moves with the map' % (what, w, c), r2.temp['duct_mw'][w, p_d[c]],
                       r.temp['duct_mw'][w, c], tol=1e-10, key='duct_not_equivariant')
                for s_ in range(2):
                    env.eq('%s: duct %d surface %d cell %d moves with the map' % (what, w, s_, c), r2.temp['duct_surf'][w, s_, p_d[c]],
                           r.temp['duct_surf'][w, s_, c], tol=1e-10, key='duct_not_equivariant')
        # region-wide averages (the real properties): properties and correlated parameters are refreshed at these
        for nm in ('avg_coolant_int_temp', 'avg_coolant_temp', 'avg_duct_mw_temp') + (('avg_coolant_byp_temp',) if nduct > 1 else ()):
            v1, v2 = np.ravel(getattr(r, nm)), np.ravel(getattr(r2, nm))
            for j in range(len(v1)):
                env.eq('%s: %s[%d] (temperature at which properties are refreshed) is the same on both copies' % (what, nm, j), v2[j], v1[j],
                       tol=1e-10, key='averages_not_invariant')
        # pin-adjacent coolant temperature and pin power handed to the pin model
        got = []

        class PMstub:
            htc_params = [0.023, 0.8, 0.4, 7.0]

            def calculate_temperatures(self, q_lin, Tc_avg, htc, dz_):
                got.append((q_lin, Tc_avg))
                return np.zeros((r.n_pin, 6))
        for reg, q in ((r, qp), (r2, qp2)):
            reg.pin_model = PMstub()
            reg.pin_temps = np.zeros((reg.n_pin, 9))
            reg.corr = dict(reg.corr)
            reg.corr['pin_nu'] = lambda *a, **k_: 5.0
            reg.calculate_pin_temperatures(dz, q)
        (q1, T1), (q2, T2) = got
        for p in range(r.n_pin):
            env.eq('%s: coolant temperature seen by pin %d moves with the map' % (what, p), np.ravel(T2)[p_pin[p]], np.ravel(T1)[p],
                   tol=1e-10, key='pin_not_equivariant')
            env.eq('%s: power handed to the pin model for pin %d moves with the map' % (what, p), np.ravel(q2)[p_pin[p]], np.ravel(q1)[p],
                   tol=1e-10, key='pin_not_equivariant')


def body_sixnode(env):
    """Six-node unrodded region: turning by k sides shifts the node index by k, the mirror reverses it."""
    k, mirror = env.params.get('k', 1), env.params.get('mirror', False)
    p = [((-i if mirror else i) + k) % 6 for i in range(6)]
    what = 'mirror' if mirror else 'rotation by %d deg' % (60 * k)
    with env.patch(MODS):
        r = SR.sym_unrodded(env, '6node')
        r2 = copy.copy(r)
        r2.temp = {kk: _permuted(v, p) for kk, v in r.temp.items()}
        r2.ebal = {kk: (v.copy() if hasattr(v, 'copy') else v) for kk, v in r.ebal.items()}
        r.ebal = {kk: (v.copy() if hasattr(v, 'copy') else v) for kk, v in r.ebal.items()}
        seenT = {0: [], 1: []}
        for w, reg in enumerate((r, r2)):
            reg._update_coolant_params = (lambda T, *a, _w=w, **k_: seenT[_w].append(T))
        env.stub('correlated-parameter update of the low-fidelity region replaced by a recorder of the temperature it is asked to '
                 'evaluate properties at (claimed equal on both copies)')
        dz = env.pos('dz', hi=1)
        q = env.nonneg('q_refl', hi=1e6)
        t_gap = _vec(env, 'Tgap', 6, 200, 3000)
        h_gap = _vec(env, 'htc_gap', 6, 0, 1e7)
        r.calculate(dz, {'refl': q}, t_gap, h_gap, False, False)
        r2.calculate(dz, {'refl': q}, _permuted(t_gap, p), _permuted(h_gap, p), False, False)
        env.holds('%s: properties and correlated parameters are refreshed as often on both copies' % what,
                  len(seenT[0]) == len(seenT[1]) and len(seenT[0]) >= 1)
        for j, (Ta, Tb) in enumerate(zip(seenT[0], seenT[1])):
            env.eq('%s: temperature at which properties and correlated parameters are refreshed (call %d) is the same on both copies'
                   % (what, j), Tb, Ta, tol=1e-10, key='sixnode_not_equivariant')
        for i in range(6):
            env.eq('%s: coolant node %d moves with the map' % (what, i), np.ravel(r2.temp['coolant_int'])[p[i]],
                   np.ravel(r.temp['coolant_int'])[i], tol=1e-10, key='sixnode_not_equivariant')
            env.eq('%s: duct mid-wall node %d moves with the map' % (what, i), r2.temp['duct_mw'][0, p[i]], r.temp['duct_mw'][0, i],
                   tol=1e-10, key='sixnode_not_equivariant')
            for s_ in range(2):
                env.eq('%s: duct surface %d node %d moves with the map' % (what, s_, i), r2.temp['duct_surf'][0, s_, p[i]],
                       r.temp['duct_surf'][0, s_, i], tol=1e-10, key='sixnode_not_equivariant')


# ================================================================== core rotation
CMODS = [cm, rm, mf]
_NORMALS = {}


def _side_normals():
    """Outward direction of hex side s = direction from the centre assembly of a full 7-position core to
    its neighbour across side s (published assembly coordinates + adjacency of the real Core)."""
    if 'n' not in _NORMALS:
        r = SC.build_reactor('seven-a2')
        xy = r.core.map_assembly_xy()
        ns = []
        for s_ in range(6):
            nb = int(r.core.asm_adj[0][s_]) - 1
            v = xy[nb] - xy[0]
            ns.append(v / np.hypot(*v))
        _NORMALS['n'] = np.array(ns)
    return _NORMALS['n']


def assembly_xy(c):
    """Published assembly coordinates.  Core.map_assembly_xy raises IndexError when the centre position is empty (it
    starts counting at 1); for such cores the coordinates of the same grid positions are read from a fully loaded core
    of the same ring count through the published position map (Core.asm_map)."""
    try:
        return np.asarray(c.map_assembly_xy(), dtype=float)
    except IndexError:
        full = SC.build_reactor({2: 'seven-a2', 3: 'nineteen-a2'}[int(c.n_ring)]).core
        fxy = np.asarray(full.map_assembly_xy(), dtype=float)
        xy = np.zeros((c.n_asm, 2))
        for a in range(c.n_asm):
            row, col = [int(x[0]) for x in np.where(c.asm_map == a + 1)]
            xy[a] = fxy[int(full.asm_map[row, col]) - 1]
        return xy


def gap_cell_coordinates(env, r, tag):
    """Coordinates of every (assembly, perimeter position) incidence of the gap mesh: edge cell j of n on side s
    sits on the mid-line of the gap at the fraction (j + 1/2) / n of the side, walking from the corner shared
    with side s-1 to the corner shared with side s+1; the trailing corner cell sits at the hexagon vertex between
    sides s and s+1.  Returns (xy per gap cell, incidence table (a, i) -> (side, j), assembly xy)."""
    c = r.core
    N = _side_normals()
    xy = assembly_xy(c)
    adj = c._asm_sc_adj
    scps = c._geom_params['sc_per_side']
    hs, pitch = float(c.hex_side_len), float(c.asm_pitch)
    for a in range(c.n_asm):
        for s_ in range(6):
            nb = int(c.asm_adj[a][s_]) - 1
            if nb >= 0:
                v = xy[nb] - xy[a]
                env.holds('%s: neighbour across side %d of assembly %d lies in the direction of that side' % (tag, s_, a),
                          float(np.hypot(*(v / np.hypot(*v) - N[s_]))) < 1e-9, key='core_tables_not_equivariant')
    inc = {}
    pts = {}
    for a in range(c.n_asm):
        i = 0
        for s_ in range(6):
            n = int(scps[a, s_])
            t = N[(s_ + 1) % 6] - N[(s_ - 1) % 6]
            t = t / np.hypot(*t)
            for j in range(n + 1):
                if j < n:
                    pt = xy[a] + 0.5 * pitch * N[s_] + t * (-0.5 * hs + hs * (j + 0.5) / n)
                else:
                    v = N[s_] + N[(s_ + 1) % 6]
                    pt = xy[a] + pitch / np.sqrt(3.0) * v / np.hypot(*v)
                inc[(a, i)] = (s_, j if j < n else 'c', n)
                pts.setdefault(int(adj[a, i]) - 1, []).append(pt)
                i += 1
        env.holds('%s: assembly %d has sum(cells per side) + 6 perimeter positions' % (tag, a), int(np.count_nonzero(adj[a])) == i)
    gxy = np.zeros((c.n_sc, 2))
    ok = sorted(pts) == list(range(c.n_sc))
    env.holds('%s: every gap cell occurs on some assembly perimeter' % tag, ok)
    if not ok:
        env.stop()
    for f in range(c.n_sc):
        P = np.array(pts[f])
        gxy[f] = P[0]
        env.holds('%s: gap cell %d sits at the same place seen from each of its assemblies' % (tag, f + 1),
                  bool(np.all(np.hypot(P[:, 0] - P[0, 0], P[:, 1] - P[0, 1]) < 1e-6 * pitch)), key='core_tables_not_equivariant')
    return gxy, inc, xy


def _core_maps(env, r, r2):
    """Permutations of assemblies, gap cells and (assembly, position) incidences induced by the 60-degree turn."""
    g1, inc1, xy1 = gap_cell_coordinates(env, r, 'layout')
    g2, inc2, xy2 = gap_cell_coordinates(env, r2, 'turned layout')
    tol = 1e-6 * float(r.core.asm_pitch)
    M, rho, k_used = None, None, None
    for k in (1, 5):
        rho = perm_from_xy(xy1, xy2, _rot(k), tol)
        if rho is not None:
            M, k_used = _rot(k), k
            break
    env.holds('turning the loading pattern by one position per ring side turns the published assembly coordinates by 60 degrees',
              rho is not None, key='core_tables_not_equivariant')
    if rho is None:
        env.stop()
    sigma = perm_from_xy(g1, g2, M, tol)
    env.holds('the gap cells of the turned core are the turned gap cells', sigma is not None, key='core_tables_not_equivariant')
    if sigma is None:
        env.stop()
    c1, c2 = r.core, r2.core
    imap = {}
    shifts = set()
    for (a, i), (s_, j, n) in inc1.items():
        f2 = sigma[int(c1._asm_sc_adj[a, i]) - 1]
        a2 = rho[a]
        loc = [ii for ii in range(c2._asm_sc_adj.shape[1]) if int(c2._asm_sc_adj[a2, ii]) - 1 == f2]
        env.holds('assembly %d position %d: the turned gap cell borders the turned assembly exactly once' % (a, i), len(loc) == 1,
                  key='core_tables_not_equivariant')
        if len(loc) != 1:
            env.stop()
        imap[(a, i)] = (a2, loc[0])
        s2, j2, n2 = inc2[(a2, loc[0])]
        shifts.add((s2 - s_) % 6)
        env.holds('assembly %d position %d keeps its place along the side (cell %s of %d)' % (a, i, j, n), (j2, n2) == (j, n),
                  key='core_tables_not_equivariant')
    env.holds('every hex side moves on by the same number of sides', len(shifts) == 1, key='core_tables_not_equivariant')
    return rho, sigma, imap, (shifts.pop() if len(shifts) == 1 else None)


def _nb_slot(c2, f2, g2):
    return [jj for jj in range(3) if int(c2._sc_adj[f2, jj]) - 1 == g2]


def _turned_pair(env, model='flow'):
    """Real Reactors of the loading pattern turned `turns` times and turns + 1 times by 60 degrees."""
    lay = list(SC.LAYOUTS[env.params['layout']])
    for _ in range(env.params.get('turns', 0)):
        lay = SC.rotate_layout(lay)
    return SC.build_reactor(tuple(lay), gap_model=model), SC.build_reactor(tuple(SC.rotate_layout(lay)), gap_model=model)


def body_core_tables(env):
    """Index and geometry tables of the turned core = turned tables (no symbolic dimension: enumeration)."""
    model = env.params.get('model', 'flow')
    r, r2 = _turned_pair(env, model)
    rho, sigma, imap, shift = _core_maps(env, r, r2)
    c1, c2 = r.core, r2.core

    def close(x, y):
        return abs(float(x) - float(y)) <= 1e-11 * max(abs(float(x)), abs(float(y)), 1e-300)
    for f in range(c1.n_sc):
        f2 = sigma[f]
        env.holds('gap cell %d keeps its type' % (f + 1), int(c1._sc_types[f]) == int(c2._sc_types[f2]), key='core_tables_not_equivariant')
        nb1 = sorted(sigma[int(x) - 1] for x in c1._sc_adj[f] if x > 0)
        nb2 = sorted(int(x) - 1 for x in c2._sc_adj[f2] if x > 0)
        env.holds('gap cell %d keeps its neighbours' % (f + 1), nb1 == nb2, key='core_tables_not_equivariant')
        for nm in ('area', 'de'):
            if nm in c1.gap_params:
                env.holds('gap cell %d keeps its %s' % (f + 1, nm), close(np.ravel(c1.gap_params[nm])[f], np.ravel(c2.gap_params[nm])[f2]),
                          key='core_tables_not_equivariant')
        env.holds('gap cell %d keeps its flow rate' % (f + 1), close(c1._sc_mfr[f], c2._sc_mfr[f2]), key='core_tables_not_equivariant')
        for j in range(3):
            g = int(c1._sc_adj[f, j]) - 1
            if g >= 0:
                slot = _nb_slot(c2, f2, sigma[g])
                if len(slot) == 1:
                    env.holds('gap cells %d,%d keep their conduction resistance' % (f + 1, g + 1),
                              close(c1._Rcond[f, j], c2._Rcond[f2, slot[0]]), key='core_tables_not_equivariant')
    for (a, i), (a2, i2) in imap.items():
        env.holds('assembly %d position %d keeps its contact length' % (a, i),
                  close(c1.gap_params['asm wp'][a, i], c2.gap_params['asm wp'][a2, i2]), key='core_tables_not_equivariant')
    for a in range(c1.n_asm):
        t1, t2 = r.assemblies[a], r2.assemblies[rho[a]]
        env.holds('assembly %d keeps its type and flow rate' % a, t1.name == t2.name and close(t1.flow_rate, t2.flow_rate),
                  key='core_tables_not_equivariant')


def _turned_core(env, c, r2, sigma, imap, sym_wp):
    """Copy of the turned real core whose state is the state of `c` moved by the permutations."""
    real2 = r2.core
    c2 = copy.copy(real2)
    obj = env.mode == 'sym'

    def conv(a):
        return a if obj else a.astype(float)
    c2.coolant_gap_temp = _permuted(c.coolant_gap_temp, sigma)
    c2.coolant_gap_params = dict(real2.coolant_gap_params)
    c2.coolant_gap_params['htc'] = _permuted(c.coolant_gap_params['htc'], sigma)
    c2.gap_coolant = c.gap_coolant
    c2._update_coolant_gap_params = lambda *a, **k: None
    c2._sc_mfr = _permuted(c._sc_mfr, sigma)
    c2._inv_sc_mfr = _permuted(c._inv_sc_mfr, sigma)
    c2.d_gap = c.d_gap
    L = np.full(real2.gap_params['L'].shape, 0.0, dtype=object)
    R = np.full(L.shape, 0.0, dtype=object)
    for f in range(c.n_sc):
        for j in range(3):
            g = int(c._sc_adj[f, j]) - 1
            if g >= 0:
                slot = _nb_slot(real2, sigma[f], sigma[g])
                L[sigma[f], slot[0]] = c.gap_params['L'][f, j]
                R[sigma[f], slot[0]] = c._Rcond[f, j]
    c2.gap_params = dict(real2.gap_params)
    c2.gap_params['L'] = conv(L)
    c2._Rcond = conv(R)
    if sym_wp:
        wp = np.full(real2._asm_sc_adj.shape, 0.0, dtype=object)
        for (a, i), (a2, i2) in imap.items():
            wp[a2, i2] = c.gap_params['asm wp'][a, i]
        c2.gap_params['asm wp'] = conv(wp)
    model = c2.model
    c2.model = 'flow' if model is None else model
    c2._make_conv_mask()
    c2.model = model
    c2.ebal = {'asm': (np.full(real2._asm_sc_adj.shape, 0.0, dtype=object) if obj else np.zeros(real2._asm_sc_adj.shape))}
    return c2


def body_core_step(env):
    """One real gap step (flow / no-flow / duct-average) on a core and on the turned core with the turned state."""
    model = env.params.get('model', 'flow')
    r, r2 = _turned_pair(env, model)
    rho, sigma, imap, shift = _core_maps(env, r, r2)
    with env.patch(CMODS):
        c = SC.sym_core(env, r)
        c2 = _turned_core(env, c, r2, sigma, imap, True)
        obj = env.mode == 'sym'
        adj = r.core._asm_sc_adj
        td = np.full(adj.shape, 0.0, dtype=object) if obj else np.zeros(adj.shape)
        td2 = np.full(r2.core._asm_sc_adj.shape, 0.0, dtype=object) if obj else np.zeros(r2.core._asm_sc_adj.shape)
        for (a, i), (a2, i2) in sorted(imap.items()):
            td[a, i] = env.real('Tduct_%d_%d' % (a, i), lo=200, hi=3000)
            td2[a2, i2] = td[a, i]
        dz = env.pos('dz', hi=1)
        c.calculate_gap_temperatures(dz, td)
        c2.calculate_gap_temperatures(dz, td2)
        for f in range(c.n_sc):
            env.eq('%s model: new temperature of gap cell %d turns with the core' % (model, f + 1), c2.coolant_gap_temp[sigma[f]],
                   c.coolant_gap_temp[f], tol=1e-10, key='gap_not_equivariant')
        for (a, i), (a2, i2) in sorted(imap.items()):
            env.eq('%s model: heat tallied for assembly %d position %d turns with the core' % (model, a, i), c2.ebal['asm'][a2, i2],
                   c.ebal['asm'][a, i], tol=1e-10, key='gap_not_equivariant')


def body_core_axial(env):
    """Real Reactor.axial_step (duct -> gap map, gap step, gap -> duct maps weighted by the film coefficient) on both cores
    with stub assemblies carrying symbolic outer-duct temperatures: what every assembly is handed turns with the core
    (the maps are float matrices: 1e-9 relative tolerance, linear arithmetic)."""
    r, r2 = _turned_pair(env)
    rho, sigma, imap, shift = _core_maps(env, r, r2)
    with env.patch(CMODS):
        c = SC.sym_core(env, r, sym_wp=False)
        n = c.n_sc
        c.coolant_gap_params['htc'] = np.array([3.0e4 + 137.0 * i for i in range(n)])
        env.stub('film coefficients concrete (distinct per gap cell) so that the tolerance query is linear in the temperatures')
        c2 = _turned_core(env, c, r2, sigma, imap, False)
        recs = ({}, {})
        seen = {}
        Ts = {}
        reacs = []
        for which, (rr, cc) in enumerate(((r, c), (r2, c2))):
            asms = []
            for a, asm in enumerate(rr.assemblies):
                reg = asm.active_region
                ncell = reg.temp['duct_surf'].shape[-1]
                if which == 0:
                    ts = np.empty(ncell, dtype=object)
                    for k in range(ncell):
                        ts[k] = env.real('Tsurf_%d_%d' % (a, k), lo=200, hi=3000)
                    if env.mode == 'replay':
                        ts = ts.astype(float)
                    Ts[a] = ts
                else:
                    a1 = rho.index(a)
                    src = Ts[a1]
                    per = len(src) // 6
                    ts = np.empty_like(src)
                    for k in range(len(src)):
                        ts[(k + shift * per) % len(src)] = src[k]

                def calc(dz_, gap_temp, gap_htc, adiabatic=False, ebal=False, _a=a, _w=which):
                    recs[_w][_a] = (gap_temp, gap_htc)
                asms.append(StubSelf(duct_outer_surf_temp=ts, active_region=StubSelf(_map=reg._map), calculate=calc,
                                     check_region_update=lambda z: False, write=lambda *x, **k: None))
            rx = copy.copy(rr)
            rx.core = cc
            rx.assemblies = asms
            rx._is_adiabatic = False
            rx._options = dict(rr._options)
            rx._options['dump'] = dict(rr._options['dump'], any=False)
            rx._options['ebal'] = True
            rx.z = np.array([0.0, 1.0, 2.0])
            orig = cc.calculate_gap_temperatures

            def spy(dz_, tds, _w=which, _o=orig):
                seen[_w] = [list(x) for x in tds]
                return _o(dz_, tds)
            cc.calculate_gap_temperatures = spy
            rm.Reactor.axial_step(rx, 1.0, 1.0, 0)
            reacs.append(rx)
        scale = 3000.0
        for a in range(len(r.assemblies)):
            gt1, gh1 = recs[0][a]
            gt2, gh2 = recs[1][rho[a]]
            per = len(gt1) // 6
            for k in range(len(gt1)):
                k2 = (k + shift * per) % len(gt1)
                env.le('assembly %d duct cell %d: gap temperature handed over turns with the core (hi)' % (a, k), gt2[k2] - gt1[k], 1e-9 * scale,
                       key='axial_step_not_equivariant')
                env.ge('assembly %d duct cell %d: gap temperature handed over turns with the core (lo)' % (a, k), gt2[k2] - gt1[k], -1e-9 * scale,
                       key='axial_step_not_equivariant')
                env.holds('assembly %d duct cell %d: film coefficient handed over turns with the core' % (a, k),
                          abs(float(gh2[k2]) - float(gh1[k])) <= 1e-9 * abs(float(gh1[k])), key='axial_step_not_equivariant')
        # the duct temperatures the gap step was given (duct -> gap map of every assembly) turn with the core; the gap step
        # itself is covered exactly by the core-step instances
        td1, td2 = seen[0], seen[1]
        for (a, i), (a2, i2) in sorted(imap.items()):
            env.le('assembly %d position %d: duct temperature mapped onto the gap mesh turns with the core (hi)' % (a, i),
                   td2[a2][i2] - td1[a][i], 1e-9 * scale, key='axial_step_not_equivariant')
            env.ge('assembly %d position %d: duct temperature mapped onto the gap mesh turns with the core (lo)' % (a, i),
                   td2[a2][i2] - td1[a][i], -1e-9 * scale, key='axial_step_not_equivariant')


def instances(tier):
    inst = []
    W = ('clockwise', 'counterclockwise')
    if tier == 'quick':
        combos = [(n, d, w, [1, 2, 3, 4, 5]) for n in (2, 3) for d in (1, 2) for w in W] + [(2, 3, 'clockwise', [1]), (4, 1, 'counterclockwise', [1])]
        mirrors = [(n, d, w, k) for n in (2, 3) for d in (1, 2) for w in W for k in (0, 1)]
    else:
        combos = [(n, d, w, [1, 2, 3, 4, 5]) for n in (2, 3, 4) for d in (1, 2, 3) for w in W] + \
                 [(n, d, w, [1, 4]) for n in (5, 6) for d in (1, 2) for w in W]
        mirrors = [(n, d, w, k) for n in (2, 3, 4) for d in (1, 2, 3) for w in W for k in (0, 1, 2, 3, 4, 5)] + \
                  [(n, 1, w, 0) for n in (5, 6) for w in W]
    for n, d, w, ks in combos:
        for k in ks:
            inst.append(dict(label='rodded-rotation[rings=%d,ducts=%d,%s,k=%d]' % (n, d, w, k), body=body_rodded,
                             params={'n_ring': n, 'n_duct': d, 'wwdir': w, 'k': k}, timeout_ms=120000))
    for n, d, w, k in mirrors:
        inst.append(dict(label='rodded-mirror[rings=%d,ducts=%d,%s,k=%d]' % (n, d, w, k), body=body_rodded,
                         params={'n_ring': n, 'n_duct': d, 'wwdir': w, 'k': k, 'mirror': True}, timeout_ms=120000))
    for k in ((1, 3) if tier == 'quick' else (1, 2, 3, 4, 5)):
        inst.append(dict(label='sixnode-rotation[k=%d]' % k, body=body_sixnode, params={'k': k}))
    inst.append(dict(label='sixnode-mirror', body=body_sixnode, params={'k': 0, 'mirror': True}))
    lays = ['three-a2-a3-ur', 'six-hole', 'seven-mixed', 'ring-no-centre', 'seven-alt', 'five-alt', 'three-a3-b3-a2'] + \
        (['three-a3-dd-u6', 'two-a2-a3', 'nineteen-sparse'] if tier == 'thorough' else [])
    for l in lays:
        # the tables of the pattern turned t times against those of the pattern turned t + 1 times, all six turns (a slip that depends on the
        # absolute hex-side index shows for some orientations only)
        for t in range(1, 6):
            inst.append(dict(label='core-tables[%s,flow,turned %d times]' % (l, t), body=body_core_tables, params={'layout': l, 'model': 'flow', 'turns': t},
                             check_vacuity=False))
        for model in ('flow', 'no_flow', 'duct_average'):
            if tier == 'quick' and model != 'flow' and l != 'three-a2-a3-ur':
                continue
            inst.append(dict(label='core-tables[%s,%s]' % (l, model), body=body_core_tables, params={'layout': l, 'model': model},
                             check_vacuity=False))
            inst.append(dict(label='core-step[%s,%s]' % (l, model), body=body_core_step, params={'layout': l, 'model': model},
                             timeout_ms=240000, max_depth=4000, max_paths=8))
        inst.append(dict(label='core-axial-step[%s]' % l, body=body_core_axial, params={'layout': l}, timeout_ms=240000))
    return inst


def main():
    a = runner.main_args()
    inst = runner.select(instances(a.tier), a.only)
    runner.run_check(
        'C07', inst, a.tier,
        explanation=('Self-composition: two copies of a region with shared symbolic derived state; copy 2 carries the fields and powers '
                     'moved by the permutation induced by the published centroid coordinates for a rotation / the mirror image (mirror: '
                     'index tables and swirl donor column from a region really constructed with the opposite wire direction).  The real '
                     'sub-steps run on both; "result of copy 2 = moved result of copy 1" is an SMT query per cell.  Core: two real Reactors (a '
                     'loading pattern and the pattern turned by 60 degrees); assembly, gap-cell and incidence permutations from coordinates; the '
                     'symbolic state of the turned core is the moved state of the first; one real gap step per gap model (exact) and one real '
                     'Reactor.axial_step with stub assemblies (float maps: 1e-9 relative, linear) run on both.  The index / geometry tables of '
                     'the turned core are compared directly (enumeration, no symbolic dimension).'),
        bounds={'rings': '2..4 (quick) / 2..6', 'ducts': '1..3', 'rotations': 'k = 1..5', 'mirror': 'x-axis, composed with rotations',
                'core layouts': '3, 3 (no centre), 6 (one hole) and 7 positions (quick) / + 2, 3 (double duct, six-node) and a sparse 19-position grid; gap models flow, no_flow, duct_average',
                'fields': 'all temperatures, pin/coolant/duct powers, gap temperatures and film coefficients symbolic'},
        outside=['composition of the sub-steps into RoddedRegion.calculate (C01 calculate() instances)', 'temperature-dependent properties '
                 '(evaluated at bundle averages, which are invariant under permutations)', 'bundles of more than 6 rings', 'core: whole 19/37-position loadings; the '
                 'gap-cell coordinates are computed by the harness from the published assembly coordinates, adjacency and cells per side (no coordinates '
                 'are published for gap cells)', 'core: assembly results given equivariant gap inputs follow from the region instances (each assembly '
                 'is turned in place: rotation instances)'],
        level_assumptions=['correlated parameters depend on the subchannel type only (C12)'])


if __name__ == '__main__':
    main()
