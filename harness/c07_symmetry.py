"""C07 -- solutions are equivariant under hexagonal symmetries.

Self-composition over the real step code.  Two copies of one region share the symbolic derived
state (geometry, properties, correlated parameters); copy 2 carries the fields and powers of
copy 1 moved by the permutation that the *published centroid coordinates* (Subchannel.xy,
PinLattice.xy) induce for a rotation by k*60 degrees or for the mirror image (copy 2 of the
mirror takes its swirl donor column from a region really constructed with the opposite wire
direction).  The real sub-steps of RoddedRegion.calculate run on both copies and the solver is
asked whether any result of copy 2 can differ from the permuted result of copy 1.

Core part: two real Reactors are built (a layout and the same layout turned by 60 degrees about
the core centre); gap-cell coordinates are computed from Core.map_assembly_xy, the assembly
adjacency and the per-side cell bounds; the state of both cores is symbolic, tied together by
the induced permutations, and one real Core.calculate_gap_temperatures step / the steady gap
models / Reactor.axial_step run on both.

Real code: RoddedRegion._calc_coolant_int_temp, _calc_int_sc_power, _calc_coolant_byp_temp,
_calc_duct_temp, _calc_duct_power, calculate_pin_temperatures (coolant average),
MultiNodeHomogeneous.calculate; Core.calculate_gap_temperatures, _flow_model, _noflow_model,
_duct_average_model, adjacent_coolant_gap_temp/_htc, Reactor.axial_step; the index tables are
those built by the real constructors (Subchannel, PinLattice, Core.load, Reactor set-up).
"""
import copy

import numpy as np

from symx import runner, core
from harness.common import StubSelf
from harness import symregion as SR
from harness import symcore as SC

import dassh.region_rodded as rrm
import dassh.region as rgm
import dassh.region_unrodded as rum
import dassh.core as cm
import dassh.reactor as rm
import dassh.mesh_functions as mf

MODS = [rrm, rgm, rum]


# ---------------------------------------------------------------- permutations from coordinates
def _rot(k):
    a = k * np.pi / 3
    return np.array([[np.cos(a), -np.sin(a)], [np.sin(a), np.cos(a)]])


MIRROR = np.array([[1.0, 0.0], [0.0, -1.0]])


def perm_from_xy(src, dst, M, tol):
    """p with  M @ src[i] == dst[p[i]]  (None if the point set is not mapped onto itself)."""
    src = np.asarray(src, dtype=float)
    dst = np.asarray(dst, dtype=float)
    img = src @ M.T
    p = []
    for i in range(len(src)):
        d = np.hypot(dst[:, 0] - img[i, 0], dst[:, 1] - img[i, 1])
        j = int(np.argmin(d))
        if d[j] > tol:
            return None
        p.append(j)
    if sorted(p) != list(range(len(dst))):
        return None
    return p


def _vec(env, name, n, lo, hi, lo_strict=True):
    a = np.empty(n, dtype=object)
    for i in range(n):
        a[i] = env.real('%s%d' % (name, i), lo=lo, hi=hi, lo_strict=lo_strict)
    return a.astype(float) if env.mode == 'replay' else a


def _permuted(a, p):
    """b with b[..., p[i]] = a[..., i]"""
    b = np.empty_like(a)
    for i, j in enumerate(p):
        b[..., j] = a[..., i]
    return b


def _region_perms(env, r, r2, M, what):
    sc, sc2 = r.subchannel, r2.subchannel
    nsc = sc.n_sc['coolant']['total']
    nd = sc.n_sc['duct']['total']
    tol = 1e-6 * float(r.pin_lattice.xy[:, 0].max() - r.pin_lattice.xy[:, 0].min() + 1e-3)
    p_sc = perm_from_xy(sc.xy[:nsc], sc2.xy[:nsc], M, tol)
    p_pin = perm_from_xy(r.pin_lattice.xy, r2.pin_lattice.xy, M, tol)
    env.holds('%s maps the coolant subchannel centroids onto themselves' % what, p_sc is not None, key='centroids_not_symmetric')
    env.holds('%s maps the pin centres onto themselves' % what, p_pin is not None, key='centroids_not_symmetric')
    p_d = None
    for w in range(r.n_duct + r.n_bypass):
        s0 = nsc + w * nd
        pw = perm_from_xy(sc.xy[s0:s0 + nd], sc2.xy[s0:s0 + nd], M, tol)
        env.holds('%s maps the centroids of wall/bypass ring %d onto themselves' % (what, w), pw is not None, key='centroids_not_symmetric')
        if pw is None:
            env.stop()
        if p_d is None:
            p_d = pw
        env.holds('%s: wall/bypass ring %d is moved like ring 0' % (what, w), pw == p_d, key='centroids_not_symmetric')
    if p_sc is None or p_pin is None:
        env.stop()
    return p_sc, p_pin, p_d


def _second_region(env, r, mirror):
    """Copy 2: same symbolic derived state; for the mirror its index tables and swirl donor column
    come from a region really constructed with the opposite wire direction."""
    r2 = copy.copy(r)
    if mirror:
        other = 'counterclockwise' if r.wire_direction == 'clockwise' else 'clockwise'
        b2 = SR.base_region(env.params['n_ring'], env.params['n_duct'], other, 0.05)
        r2.subchannel = b2.subchannel
        r2.pin_lattice = b2.pin_lattice
        r2._adj_sw = b2._adj_sw
        r2.wire_direction = b2.wire_direction
        r2._duct_idx = b2._duct_idx
        ht = dict(r.ht)
        # index tables of the heat-transfer constants are rebuilt by the real set-up on copy 2
        r2.ht = ht
        r2._setup_ht_constants()
    r2.temp = {k: v.copy() for k, v in r.temp.items()}
    r2.ebal = {k: (v.copy() if hasattr(v, 'copy') else v) for k, v in r.ebal.items()}
    return r2


def body_rodded(env):
    n, nduct, ww = env.params['n_ring'], env.params['n_duct'], env.params['wwdir']
    k, mirror = env.params.get('k', 0), env.params.get('mirror', False)
    M = (_rot(k) @ MIRROR) if mirror else _rot(k)
    what = ('mirror image' + (' turned by %d deg' % (60 * k) if k else '')) if mirror else 'rotation by %d deg' % (60 * k)
    with env.patch(MODS):
        r = SR.sym_rodded(env, n, nduct, wwdir=ww)
        r2 = _second_region(env, r, mirror)
        p_sc, p_pin, p_d = _region_perms(env, r, r2, M, what)
        sc = r.subchannel
        nsc, nd = sc.n_sc['coolant']['total'], sc.n_sc['duct']['total']
        dz = env.pos('dz', hi=1)
        qp = _vec(env, 'q_pin', r.n_pin, 0, 1e6, lo_strict=False)
        qc = _vec(env, 'q_cool', nsc, 0, 1e5, lo_strict=False)
        qd = _vec(env, 'q_duct', nduct * nd, 0, 1e5, lo_strict=False)
        t_gap = _vec(env, 'Tgap', nd, 200, 3000)
        h_gap = _vec(env, 'htc_gap', nd, 0, 1e7)
        # copy 2 carries the moved fields
        r2.temp['coolant_int'] = _permuted(r.temp['coolant_int'], p_sc)
        r2.temp['duct_mw'] = _permuted(r.temp['duct_mw'], p_d)
        r2.temp['duct_surf'] = _permuted(r.temp['duct_surf'], p_d)
        if nduct > 1:
            r2.temp['coolant_byp'] = _permuted(r.temp['coolant_byp'], p_d)
        qp2, qc2 = _permuted(qp, p_pin), _permuted(qc, p_sc)
        qd2 = np.concatenate([_permuted(qd[w * nd:(w + 1) * nd], p_d) for w in range(nduct)])
        tg2, hg2 = _permuted(t_gap, p_d), _permuted(h_gap, p_d)
        # interior coolant
        d1 = r._calc_coolant_int_temp(dz, qp, qc)
        d2 = r2._calc_coolant_int_temp(dz, qp2, qc2)
        for i in range(nsc):
            env.eq('%s: coolant temperature rise of subchannel %d moves with the map' % (what, i), d2[p_sc[i]], d1[i], tol=1e-10,
                   key='coolant_not_equivariant')
        # bypass coolant
        if nduct > 1:
            b1 = r._calc_coolant_byp_temp(dz)
            b2 = r2._calc_coolant_byp_temp(dz)
            for g in range(r.n_bypass):
                for c in range(nd):
                    env.eq('%s: bypass %d cell %d moves with the map' % (what, g, c), b2[g, p_d[c]], b1[g, c], tol=1e-10,
                           key='bypass_not_equivariant')
        # duct walls
        r._calc_duct_temp(qd, t_gap, h_gap, False)
        r2._calc_duct_temp(qd2, tg2, hg2, False)
        for w in range(nduct):
            for c in range(nd):
                env.eq('%s: duct %d mid-wall cell %d moves with the map' % (what, w, c), r2.temp['duct_mw'][w, p_d[c]],
                       r.temp['duct_mw'][w, c], tol=1e-10, key='duct_not_equivariant')
                for s_ in range(2):
                    env.eq('%s: duct %d surface %d cell %d moves with the map' % (what, w, s_, c), r2.temp['duct_surf'][w, s_, p_d[c]],
                           r.temp['duct_surf'][w, s_, c], tol=1e-10, key='duct_not_equivariant')
        # pin-adjacent coolant temperature and pin power handed to the pin model
        got = []

        class PMstub:
            htc_params = [0.023, 0.8, 0.4, 7.0]

            def calculate_temperatures(self, q_lin, Tc_avg, htc, dz_):
                got.append((q_lin, Tc_avg))
                return np.zeros((r.n_pin, 6))
        for reg, q in ((r, qp), (r2, qp2)):
            reg.pin_model = PMstub()
            reg.pin_temps = np.zeros((reg.n_pin, 9))
            reg.corr = dict(reg.corr)
            reg.corr['pin_nu'] = lambda *a, **k_: 5.0
            reg.calculate_pin_temperatures(dz, q)
        (q1, T1), (q2, T2) = got
        for p in range(r.n_pin):
            env.eq('%s: coolant temperature seen by pin %d moves with the map' % (what, p), np.ravel(T2)[p_pin[p]], np.ravel(T1)[p],
                   tol=1e-10, key='pin_not_equivariant')
            env.eq('%s: power handed to the pin model for pin %d moves with the map' % (what, p), np.ravel(q2)[p_pin[p]], np.ravel(q1)[p],
                   tol=1e-10, key='pin_not_equivariant')


def body_sixnode(env):
    """Six-node unrodded region: turning by k sides shifts the node index by k, the mirror reverses it."""
    k, mirror = env.params.get('k', 1), env.params.get('mirror', False)
    p = [((-i if mirror else i) + k) % 6 for i in range(6)]
    what = 'mirror' if mirror else 'rotation by %d deg' % (60 * k)
    with env.patch(MODS):
        r = SR.sym_unrodded(env, '6node')
        r2 = copy.copy(r)
        r2.temp = {kk: _permuted(v, p) for kk, v in r.temp.items()}
        r2.ebal = {kk: (v.copy() if hasattr(v, 'copy') else v) for kk, v in r.ebal.items()}
        r.ebal = {kk: (v.copy() if hasattr(v, 'copy') else v) for kk, v in r.ebal.items()}
        for reg in (r, r2):
            reg._update_coolant_params = lambda *a, **k_: None
        env.stub('correlated-parameter update of the low-fidelity region is a no-op (same on both copies)')
        dz = env.pos('dz', hi=1)
        q = env.nonneg('q_refl', hi=1e6)
        t_gap = _vec(env, 'Tgap', 6, 200, 3000)
        h_gap = _vec(env, 'htc_gap', 6, 0, 1e7)
        r.calculate(dz, {'refl': q}, t_gap, h_gap, False, False)
        r2.calculate(dz, {'refl': q}, _permuted(t_gap, p), _permuted(h_gap, p), False, False)
        for i in range(6):
            env.eq('%s: coolant node %d moves with the map' % (what, i), np.ravel(r2.temp['coolant_int'])[p[i]],
                   np.ravel(r.temp['coolant_int'])[i], tol=1e-10, key='sixnode_not_equivariant')
            env.eq('%s: duct mid-wall node %d moves with the map' % (what, i), r2.temp['duct_mw'][0, p[i]], r.temp['duct_mw'][0, i],
                   tol=1e-10, key='sixnode_not_equivariant')
            for s_ in range(2):
                env.eq('%s: duct surface %d node %d moves with the map' % (what, s_, i), r2.temp['duct_surf'][0, s_, p[i]],
                       r.temp['duct_surf'][0, s_, i], tol=1e-10, key='sixnode_not_equivariant')


def instances(tier):
    inst = []
    if tier == 'quick':
        combos = [(2, 1, 'clockwise', [1, 2, 3, 4, 5]), (2, 1, 'counterclockwise', [1]), (2, 2, 'clockwise', [1]), (3, 1, 'counterclockwise', [2])]
        mirrors = [(2, 1, 'clockwise', 0), (2, 2, 'counterclockwise', 0), (3, 1, 'clockwise', 1)]
    else:
        combos = [(n, d, w, [1, 2, 3, 4, 5]) for n in (2, 3) for d in (1, 2, 3) for w in ('clockwise', 'counterclockwise')] + \
                 [(4, 1, 'clockwise', [1, 5]), (4, 2, 'counterclockwise', [1])]
        mirrors = [(n, d, w, k) for n in (2, 3) for d in (1, 2) for w in ('clockwise', 'counterclockwise') for k in (0, 1, 2)] + \
                  [(4, 1, 'clockwise', 0)]
    for n, d, w, ks in combos:
        for k in ks:
            inst.append(dict(label='rodded-rotation[rings=%d,ducts=%d,%s,k=%d]' % (n, d, w, k), body=body_rodded,
                             params={'n_ring': n, 'n_duct': d, 'wwdir': w, 'k': k}, timeout_ms=120000))
    for n, d, w, k in mirrors:
        inst.append(dict(label='rodded-mirror[rings=%d,ducts=%d,%s,k=%d]' % (n, d, w, k), body=body_rodded,
                         params={'n_ring': n, 'n_duct': d, 'wwdir': w, 'k': k, 'mirror': True}, timeout_ms=120000))
    for k in ((1, 3) if tier == 'quick' else (1, 2, 3, 4, 5)):
        inst.append(dict(label='sixnode-rotation[k=%d]' % k, body=body_sixnode, params={'k': k}))
    inst.append(dict(label='sixnode-mirror', body=body_sixnode, params={'k': 0, 'mirror': True}))
    return inst


def main():
    a = runner.main_args()
    inst = runner.select(instances(a.tier), a.only)
    runner.run_check(
        'C07', inst, a.tier,
        explanation=('Self-composition: two copies of a region with shared symbolic derived state; copy 2 carries the fields and powers '
                     'moved by the permutation induced by the published centroid coordinates for a rotation / the mirror image (mirror: '
                     'index tables and swirl donor column from a region really constructed with the opposite wire direction).  The real '
                     'sub-steps run on both; "result of copy 2 = moved result of copy 1" is an SMT query per cell.'),
        bounds={'rings': '2..3 (quick) / 2..4', 'ducts': '1..2 (quick) / 1..3', 'rotations': 'k = 1..5', 'mirror': 'x-axis, composed with rotations',
                'fields': 'all temperatures, pin/coolant/duct powers, gap temperatures and film coefficients symbolic'},
        outside=['composition of the sub-steps into RoddedRegion.calculate (C01 calculate() instances)', 'temperature-dependent properties '
                 '(evaluated at bundle averages, which are invariant under permutations)', 'bundles of more than 4 rings'],
        level_assumptions=['correlated parameters depend on the subchannel type only (C12)'])


if __name__ == '__main__':
    main()
