"""C14 -- pressure drop non-negative, additive, step-size independent; every spacer grid
counted exactly once.

Real code executed symbolically: RoddedRegion.calculate_pressure_drop,
calculate_friction_pressure_drop, calculate_spacergrid_pressure_drop,
calculate_gravity_pressure_drop, RoddedRegion.pressure_drop (property);
SingleNodeHomogeneous.calculate_pressure_drop / calculate_friction_pressure_drop /
calculate_gravity_pressure_drop / pressure_drop; Assembly.pressure_drop (property).
The sequence of per-step calls made by Assembly.calculate is replayed for an arbitrary
partition z0 < z1 < ... < zk of the region (planes on the 1e-12 grid as C05 proves; the
step passed along is the separately rounded dz, within half a grid unit of the plane
spacing, exactly as Reactor._setup_zpts produces them).
"""
import numpy as np

from symx import runner, core
from harness.common import StubSelf

import dassh.region_rodded as rrm
import dassh.region_unrodded as rum
import dassh.assembly as am

core.SOLVER_ORDER = ('z3', 'cvc5')
core.Z3_FIRST_MS = 3000
G = 10 ** 12
MODS = [rrm, rum, am]

RR_METHODS = ['calculate_pressure_drop', 'calculate_friction_pressure_drop',
              'calculate_spacergrid_pressure_drop', 'calculate_gravity_pressure_drop']
UR_METHODS = ['calculate_pressure_drop', 'calculate_friction_pressure_drop',
              'calculate_gravity_pressure_drop']


class _Mat:
    pass


def _planes(env, k):
    """k+1 planes (multiples of 1e-12 m, hence >= 1e-12 apart) with the rounded steps passed
    to the region.  The planes are real variables; that they are grid multiples is used
    only through `sym_around_known` (np.around(x, 12) returns the plane within half a unit)."""
    z = [env.real('z%d' % i, lo=0, lo_strict=False, hi=20) for i in range(k + 1)]
    for i in range(k):
        env.assume(z[i + 1] - z[i] >= 1e-12)
    ks = None
    dz = []
    zacc = [z[0]]
    for i in range(k):
        d = env.real('dz%d' % i, lo=0)
        # dz_i is the separately rounded step and the assembly accumulates its own z by
        # "_z += dz": both within 0.2e-12 of the exact grid values (float noise is ~1e-16/step)
        env.assume(d - (z[i + 1] - z[i]) <= 0.2e-12)
        env.assume(d - (z[i + 1] - z[i]) >= -0.2e-12)
        dz.append(d)
        e = env.real('zdrift%d' % i, lo=-0.2e-12, lo_strict=False, hi=0.2e-12)
        zacc.append(z[i + 1] + e)
    return zacc, z, dz


def body_rodded(env):
    """mode 'closed': no grids, everything symbolic (pure polynomial identities).
    mode 'factor': one step, one grid strictly inside, everything symbolic.
    mode 'count' : planes on the 1e-12 grid, rounded steps, 1-3 grids anywhere inside the
                   region; density and velocity concrete (they only enter the common
                   per-grid factor, which mode 'factor' ties to K rho v^2 / 2), so that the
                   counting queries are linear integer/real arithmetic."""
    k = env.params['k']
    ng = env.params['ngrid']
    gravity = env.params['gravity']
    mode = env.params['mode']
    planes = []
    ov = {'around': lambda x, decimals=0: core.sym_around_known(x, decimals, planes)}
    with env.patch(MODS, overrides=ov):
        if mode == 'closed':
            dz = [env.real('dz%d' % i, lo=0) for i in range(k)]
            z = [env.real('z0', lo=0, lo_strict=False)]
            for d in dz:
                z.append(z[-1] + d)
            zacc = z
        else:
            zacc, z, dz = _planes(env, k)
            planes.extend(z)
        if mode == 'count':
            rho, vel = 850.0, 3.0
        else:
            rho = env.pos('rho')
            vel = env.real('vel')
        ff = env.pos('ff')
        de = env.pos('de')
        K = env.nonneg('grid_loss_coeff')
        cool = _Mat()
        cool.density = rho
        s = StubSelf(_bind=(rrm.RoddedRegion, RR_METHODS),
                     _pressure_drop={'friction': 0.0, 'spacer_grid': 0.0, 'gravity': 0.0},
                     coolant=cool, coolant_int_params={'ff': ff, 'vel': vel, 'grid_loss_coeff': K},
                     bundle_params={'de': de}, corr_constants={}, _gravity=gravity)
        zg = []
        if ng:
            # grid positions anywhere strictly inside the region, on or off the planes
            # (planes are grid multiples, so "on a plane" is zg == z_i).
            for j in range(ng):
                g = env.real('zgrid%d' % j)
                env.assume(g > z[0])
                env.assume(g < z[k])
                zg.append(g)
            s.corr_constants['grid'] = {'z': list(zg), 'n': ng}
        prev = dict(s._pressure_drop)
        for i in range(k):
            s.calculate_pressure_drop(zacc[i + 1], dz[i])
            for key in ('friction', 'spacer_grid', 'gravity'):
                env.ge('increment %s step %d >= 0' % (key, i), s._pressure_drop[key] - prev[key], 0)
            prev = dict(s._pressure_drop)
        L = dz[0]
        for d in dz[1:]:
            L = L + d
        env.eq('friction = f L rho v^2 / (2 De), any partition', s._pressure_drop['friction'],
               ff * L * rho * vel * vel / de / 2.0)
        env.eq('gravity = rho g L (or 0)', s._pressure_drop['gravity'],
               rho * 9.80665 * L if gravity else 0.0)
        one = K * rho * vel * vel / 2.0
        env.eq('every spacer grid counted exactly once', s._pressure_drop['spacer_grid'], ng * one,
               key='grid_not_counted_once')
        env.eq('region total = friction + grid + gravity',
               rrm.RoddedRegion.pressure_drop.fget(s),
               s._pressure_drop['friction'] + s._pressure_drop['spacer_grid'] + s._pressure_drop['gravity'])


def body_unrodded(env):
    k = env.params['k']
    gravity = env.params['gravity']
    equiv = env.params['equiv']
    with env.patch(MODS):
        zacc, z, dz = _planes(env, k)
        rho = env.pos('rho')
        vel = env.real('vel')
        ff = env.pos('ff')
        de = env.pos('de')
        cool = _Mat()
        cool.density = rho
        s = StubSelf(_bind=(rum.SingleNodeHomogeneous, UR_METHODS),
                     _pressure_drop={'friction': 0.0, 'gravity': 0.0}, coolant=cool,
                     coolant_params={'ff': ff, 'vel': vel}, _params={'de': de},
                     _rr_equiv=None, _gravity=gravity)
        if equiv:
            s._rr_equiv = StubSelf(bundle_params={'de': de})
            s._params = {'de': env.pos('de_other')}
        prev = dict(s._pressure_drop)
        for i in range(k):
            s.calculate_pressure_drop(z[i + 1], dz[i])
            for key in ('friction', 'gravity'):
                env.ge('increment %s step %d >= 0' % (key, i), s._pressure_drop[key] - prev[key], 0)
            prev = dict(s._pressure_drop)
        L = dz[0]
        for d in dz[1:]:
            L = L + d
        env.eq('friction = f L rho v^2 / (2 De), any partition', s._pressure_drop['friction'],
               ff * L * rho * vel * vel / de / 2.0)
        env.eq('gravity = rho g L (or 0)', s._pressure_drop['gravity'],
               rho * 9.80665 * L if gravity else 0.0)
        env.eq('region total = friction + gravity', rum.SingleNodeHomogeneous.pressure_drop.fget(s),
               s._pressure_drop['friction'] + s._pressure_drop['gravity'])


def body_clones(env):
    """Two regions cloned from one template by the real clone() and advanced alternately: each clone's accumulated
    pressure drop is its own closed form (a shared accumulator would add the other clone's losses)."""
    from symx import fixtures
    kind = env.params['kind']
    grav = env.params.get('gravity', True)
    with env.patch(MODS):
        # the gravity option goes through the real constructors (and the real clone)
        gridopt = env.params.get('grid')
        if kind == 'rodded':
            sg = None
            if gridopt:
                # spacer grids at 0.3 and 0.6 m given either by a loss coefficient or by a correlation: the configuration
                # must survive the real clone()
                sg = {'axial_positions': [0.3, 0.6], 'loss_coeff': 1.7 if gridopt == 'loss_coeff' else None, 'solidity': None,
                      'corr': None if gridopt == 'loss_coeff' else gridopt, 'corr_coeff': None}
            t = fixtures.make_rodded(2, 1, gravity=grav, spacer_grid=sg)
        else:
            t = fixtures.make_unrodded(kind, gravity=grav)
        A, B = t.clone(new_flowrate=1.0), t.clone(new_flowrate=2.0)
        regs = []
        for nm, reg in (('A', A), ('B', B)):
            rho, ff, vel = env.pos('rho_' + nm, hi=1e4), env.pos('ff_' + nm, hi=10), env.pos('vel_' + nm, hi=100)
            cool = _Mat()
            cool.density = rho
            reg.coolant = cool
            if kind == 'rodded':
                reg.coolant_int_params = dict(reg.coolant_int_params, ff=ff, vel=vel)
                if gridopt:
                    reg.coolant_int_params['grid_loss_coeff'] = env.nonneg('K_' + nm, hi=1e3)
                de = float(reg.bundle_params['de'])
            else:
                reg.coolant_params = dict(reg.coolant_params, ff=ff, vel=vel)
                de = float(reg._params['de']) if reg._rr_equiv is None else float(reg._rr_equiv.bundle_params['de'])
            regs.append((nm, reg, rho, ff, vel, de))
        dz = [env.pos('dz%d' % i, hi=1) for i in range(2)] if not gridopt else [0.4, 0.3]
        z = [dz[0], dz[0] + dz[1]]
        for i in range(2):
            for nm, reg, rho, ff, vel, de in regs:
                reg.calculate_pressure_drop(z[i], dz[i])
        L = dz[0] + dz[1]
        for nm, reg, rho, ff, vel, de in regs:
            if gridopt:
                env.eq('clone %s: both spacer grids of the template counted, each K rho v^2 / 2' % nm, reg._pressure_drop['spacer_grid'],
                       2 * reg.coolant_int_params['grid_loss_coeff'] * rho * vel * vel / 2.0, tol=1e-9, key='clone_lost_spacer_grids')
                env.holds('clone %s: spacer-grid set-up of the template kept (positions, loss coefficient / correlation)' % nm,
                          reg.corr_constants.get('grid', {}).get('z') == [0.3, 0.6]
                          and reg.corr_constants['grid'].get('loss_coeff') == t.corr_constants['grid'].get('loss_coeff')
                          and ('grid' in reg.corr) == ('grid' in t.corr), key='clone_lost_spacer_grids')
            env.eq('clone %s: friction loss is its own f L rho v^2 / (2 De)' % nm, reg._pressure_drop['friction'],
                   ff * L * rho * vel * vel / de / 2.0, tol=1e-9, key='clones_share_pressure_drop')
            env.eq('clone %s: gravity loss is its own rho g L (0 without the gravity option)' % nm, reg._pressure_drop['gravity'],
                   rho * 9.80665 * L if grav else 0.0, tol=1e-9, key='clones_share_pressure_drop')
        env.eq('the template has accumulated nothing', t._pressure_drop['friction'] + t._pressure_drop['gravity'], 0.0)


class _Asm(StubSelf):
    @property
    def active_region(self):
        return self.region[self._active_region_idx]

    @property
    def active_region_idx(self):
        return self._active_region_idx


def body_assembly(env):
    """Assembly total = sum over all regions passed (real update_region at every region change) +
    the active region (real pressure_drop property)."""
    nreg = env.params['nreg']
    with env.patch(MODS):
        dps = [env.nonneg('dp_region%d' % i, hi=1e9) for i in range(nreg)]
        regs = [StubSelf(pressure_drop=dps[i], activate=lambda *a, **k: None) for i in range(nreg)]
        bnds = [0.0] + [float(i + 1) for i in range(nreg)]
        a = _Asm(_bind=(am.Assembly, ['update_region', '_identify_active_region', 'check_region_update']),
                 _pressure_drop=0.0, region=regs, _active_region_idx=0, region_bnd=bnds,
                 duct_outer_surf_temp=np.zeros(6))
        seen = dps[0]
        for i in range(1, nreg):
            z = bnds[i] + 0.25          # first plane inside region i
            env.holds('region change detected at region %d' % i, a.check_region_update(z))
            a.update_region(z, None, None, adiabatic=True)
            env.holds('region %d active' % i, a._active_region_idx == i)
            seen = seen + dps[i]
            env.eq('after entering region %d: assembly total = sum of all regions so far' % i,
                   am.Assembly.pressure_drop.fget(a), seen, tol=1e-12, key='assembly_total_not_sum_of_regions')
        if nreg == 1:
            env.eq('single region: assembly total = region value', am.Assembly.pressure_drop.fget(a), dps[0])


def body_sweep_regions(env):
    """Public path (generated input -> Reactor -> real sweep; constant-property coolant): every axial region of every
    assembly ends the sweep with the friction loss f L rho v^2 / (2 De) of its own length -- also a top region that is
    crossed in a single axial step (thickness below the step size) -- and the assembly total is the sum over its regions.
    Enumeration of region layouts; no symbolic dimension."""
    import os
    import shutil
    import tempfile
    from symx import geninp, npshim
    import dassh
    L = 0.05
    res = []
    for thin in env.params['thin']:
        req = None
        for attempt in (0, 1):
            d = tempfile.mkdtemp(prefix='dassh-verif-c14.')
            try:
                top = 0.01 if req is None else round(thin * req, 6)
                axial = [('lower', 0.0, 0.01, 0.3), ('upper', round(L - top, 6), L, 0.3)]
                asms = {'a': geninp.default_asm(3, P=0.0052, D=0.0042, Dw=0.0008, axial=axial), 'b': geninp.default_asm(2)}
                inp = geninp.write_case(d, asms, [('a', 1, 1, 'FLOWRATE=0.5'), ('b', 2, 1, 'FLOWRATE=0.4')], gap_model='none', core_len=L)
                with npshim.unpatched():
                    r = dassh.Reactor(dassh.DASSH_Input(inp), path=os.path.join(d, 'out'), write_output=False)
                    if req is None:
                        req = float(r.req_dz)
                        continue
                    r.temperature_sweep()
                    for a in r.assemblies:
                        tot = 0.0
                        for k, reg in enumerate(a.region):
                            Lr = float(reg.z[1] - reg.z[0])
                            if reg.is_rodded:
                                ff, v, de = float(reg.coolant_int_params['ff']), float(reg.coolant_int_params['vel']), float(reg.bundle_params['de'])
                            else:
                                ff, v = float(reg.coolant_params['ff']), float(reg.coolant_params['vel'])
                                de = float(reg._params['de']) if reg._rr_equiv is None else float(reg._rr_equiv.bundle_params['de'])
                            want = ff * Lr * float(reg.coolant.density) * v * v / (2 * de)
                            got = float(reg._pressure_drop['friction'])
                            tot += float(reg.pressure_drop)
                            res.append((thin, a.id, k, reg.name, Lr, want, got, float(r.req_dz)))
                        res.append((thin, a.id, -1, 'total', 0.0, tot, float(a.pressure_drop), float(r.req_dz)))
            finally:
                shutil.rmtree(d, ignore_errors=True)
    for thin, aid, k, nm, Lr, want, got, req in res:
        if k < 0:
            env.holds('top region %.2f steps thick, assembly %d: total = sum of its regions' % (thin, aid), abs(got - want) <= 1e-9 * max(want, 1e-30),
                      key='assembly_total_not_sum_of_regions')
        else:
            env.holds('top region %.2f steps thick, assembly %d region %d (%s, %.6f m): friction loss of its own length (1e-6 relative)' % (thin, aid, k, nm, Lr),
                      abs(got - want) <= 1e-6 * want and got > 0, key='region_loss_not_of_its_own_length')


def instances(tier):
    inst = []
    ks = (1, 2, 3) if tier == 'quick' else (1, 2, 3, 4, 5, 6)

    def add(mode, k, ng, gravity):
        inst.append(dict(label='rodded-%s[k=%d,grids=%d,gravity=%s]' % (mode, k, ng, gravity), body=body_rodded,
                         params={'k': k, 'ngrid': ng, 'gravity': gravity, 'mode': mode},
                         max_paths=20000, max_depth=200))
    for k in ks:
        for gravity in (False, True):
            add('closed', k, 0, gravity)
    for gravity in (False, True):
        add('factor', 1, 1, gravity)
    for k in ((1, 2, 3) if tier == 'quick' else (1, 2, 3, 4, 5)):
        for ng in (1, 2, 3):
            if tier == 'quick' and k * ng > 6:
                continue
            add('count', k, ng, False)
    for k in ks:
        for gravity in (False, True):
            for equiv in (False, True):
                inst.append(dict(label='unrodded[k=%d,gravity=%s,rr_equiv=%s]' % (k, gravity, equiv),
                                 body=body_unrodded, params={'k': k, 'gravity': gravity, 'equiv': equiv}))
    for nreg in (1, 2, 3, 4):
        inst.append(dict(label='assembly-sum[regions=%d]' % nreg, body=body_assembly, params={'nreg': nreg}))
    for kind in ('simple', '6node', 'rodded'):
        for grav in (True, False):
            inst.append(dict(label='clones[%s,gravity=%s]' % (kind, grav), body=body_clones, params={'kind': kind, 'gravity': grav}))
    for g in ('loss_coeff', 'REH', 'CDD'):
        inst.append(dict(label='clones[rodded,gravity=False,spacer grids by %s]' % g, body=body_clones,
                         params={'kind': 'rodded', 'gravity': False, 'grid': g}))
    inst.append(dict(label='sweep-regions[top region 0.8, 1.0 and 3.5 steps thick]', body=body_sweep_regions, params={'thin': (0.8, 1.0, 3.5)}, check_vacuity=False))
    return inst


def main():
    a = runner.main_args()
    inst = runner.select(instances(a.tier), a.only)
    runner.run_check(
        'C14', inst, a.tier,
        explanation=('The real per-step pressure-drop methods are called for every step of an arbitrary symbolic partition of '
                     'the region (planes, rounded steps, grid positions, friction factor, density, velocity, loss coefficient '
                     'all solver variables); totals are compared with the closed forms by SMT queries on every path of the '
                     '"is a grid inside this step" test.'),
        bounds={'steps per region': '1..3 (quick) / 1..5', 'spacer grids': '0..2', 'gravity': 'on/off',
                'grid positions': 'any real strictly inside the region, including exactly on an axial plane'},
        outside=['grids exactly on the region end planes', 'accumulated drift of Assembly._z beyond 0.2e-12 m (user axial_mesh_size with more than 12 decimals)',
                 'temperature-dependent density/velocity (constant-property case of the statement)',
                 'bypass pressure drop (not reported)'],
        level_assumptions=['planes are multiples of 1e-12 m (C05); the step dz handed to the region and the z the assembly accumulates are within 0.2e-12 m of the exact grid values',
                           'np.around(x, 12) returns the grid plane lying within half a grid unit of x (sym_around_known)',
                           'friction factor, density, hydraulic diameter > 0; loss coefficient >= 0'])


if __name__ == '__main__':
    main()
