"""C11 -- duct-wall temperatures solve steady 1-D conduction with the stated BCs.

Real code executed symbolically: RoddedRegion._calc_duct_temp, _calc_duct_power,
DASSH_Region.avg_duct_mw_temp, _update_duct; SingleNodeHomogeneous._calc_duct_temp (also used by
the six-node model).  Film coefficients, conductivity, wall thickness, wall power and all
adjacent temperatures are solver variables (wall thickness enters through the derived
constants thickness, L/2 = thickness/2, L^2/8 = thickness^2/8 -- relations that C08 proves
for calculate_geometry).
"""
import copy

import numpy as np

from symx import runner, core, fixtures
from harness.common import StubSelf

import dassh.region_rodded as rrm
import dassh.region_unrodded as rum
import dassh.region as rgm

MODS = [rrm, rum, rgm]
_FIX = {}


class _Duct:
    def __init__(self, k):
        self.thermal_conductivity = k

    def update(self, T):
        pass


def _rodded(n_duct, n_ring=2):
    if (n_duct, n_ring) not in _FIX:
        _FIX[(n_duct, n_ring)] = fixtures.make_rodded(n_ring, n_duct, byp_ff=0.05 if n_duct > 1 else None)
    return copy.copy(_FIX[(n_duct, n_ring)])


def _vec(env, name, n, lo=None, hi=None):
    a = np.empty(n, dtype=object)
    for i in range(n):
        a[i] = env.real('%s%d' % (name, i), lo=lo, hi=hi)
    return a.astype(float) if env.mode == 'replay' else a


def _slab_claims(env, tag, h_in, h_out, k, t, q, T_in, Ts_in, T_mw, Ts_out, T_out, adiabatic):
    cond = k * (Ts_in - Ts_out) / t
    env.eq('%s: inner film flux = conduction - half the wall heating' % tag, h_in * (T_in - Ts_in), cond - q * t / 2, tol=1e-7)
    if adiabatic:
        env.eq('%s: adiabatic: no flux through the outer surface' % tag, cond + q * t / 2, 0.0,
               scale=abs(q * t) if env.mode == 'replay' else 0.0, tol=1e-7)
    else:
        env.eq('%s: outer film flux = conduction + half the wall heating' % tag, h_out * (Ts_out - T_out), cond + q * t / 2, tol=1e-7)
    env.eq('%s: mid-wall temperature of the heated slab' % tag, T_mw, (Ts_in + Ts_out) / 2 + q * t * t / 8 / k, tol=1e-9)


def body_rodded(env):
    nduct = env.params['n_duct']
    adiabatic = env.params['adiabatic']
    gap_len2 = env.params['gap_len2']
    power = env.params['power']          # 'none' | 'sym' | 'zero-order'
    with env.patch(MODS):
        r = _rodded(nduct, env.params.get('n_ring', 2))
        nsc = r.subchannel.n_sc['coolant']['total']
        nint = r.subchannel.n_sc['coolant']['interior']
        nd = r.subchannel.n_sc['duct']['total']
        r.temp = dict(r.temp)
        Tc = _vec(env, 'Tcool', nsc, lo=200, hi=3000)
        r.temp['coolant_int'] = Tc
        if nduct > 1:
            Tb = np.empty((nduct - 1, nd), dtype=object)
            for b in range(nduct - 1):
                Tb[b] = _vec(env, 'Tbyp%d_' % b, nd, lo=200, hi=3000)
            r.temp['coolant_byp'] = Tb.astype(float) if env.mode == 'replay' else Tb
        r.temp['duct_mw'] = np.zeros((nduct, nd)) if env.mode == 'replay' else np.full((nduct, nd), 0.0, dtype=object)
        r.temp['duct_surf'] = np.zeros((nduct, 2, nd)) if env.mode == 'replay' else np.full((nduct, 2, nd), 0.0, dtype=object)
        r.coolant_int_params = dict(r.coolant_int_params)
        hint = _vec(env, 'htc_int', 3, lo=0, hi=1e7)
        r.coolant_int_params['htc'] = hint
        if nduct > 1:
            r.coolant_byp_params = dict(r.coolant_byp_params)
            hb = np.empty((nduct - 1, 2), dtype=object)
            for b in range(nduct - 1):
                hb[b] = _vec(env, 'htc_byp%d_' % b, 2, lo=0, hi=1e7)
            r.coolant_byp_params['htc'] = hb.astype(float) if env.mode == 'replay' else hb
        k = env.pos('k_duct', hi=1e4)
        r.duct = _Duct(k)
        dp = dict(r.duct_params)
        th = np.empty(nduct, dtype=object)
        for i in range(nduct):
            th[i] = env.pos('thickness%d' % i, hi=1.0, actual=r.duct_params['thickness'][i])
        if env.mode == 'replay':
            th = th.astype(float)
        dp['thickness'] = th
        dp['L/2'] = th / 2
        dp['L^2/8'] = th * th / 8
        r.duct_params = dp
        env.assumption('duct_params: L/2 = thickness/2 and L^2/8 = thickness^2/8 (proved from calculate_geometry in C08)')
        if power == 'none':
            p_duct = None
        else:
            p_duct = _vec(env, 'p_duct', nduct * nd, lo=0, hi=1e7)
        t_gap = _vec(env, 'Tgap', nd, lo=200, hi=3000)
        h_gap = _vec(env, 'htc_gap', 2 if gap_len2 else nd, lo=0, hi=1e7)
        step = env.params.get('step')           # None | 'flowing' | 'stagnant': the whole real step of the region
        if not step:
            r._calc_duct_temp(p_duct, t_gap, h_gap, adiabatic)
        else:
            # the wall is solved first (old coolant levels), then interior and bypass coolant advance: what the step leaves in
            # temp['duct_*'] must still be that wall solution
            Tc = np.array(Tc, dtype=object if env.mode == 'sym' else float)
            Tb_old = None if nduct == 1 else np.array(r.temp['coolant_byp'], dtype=object if env.mode == 'sym' else float)
            r.temp['coolant_int'] = np.array(Tc, dtype=object if env.mode == 'sym' else float)
            r._update_coolant_int_params = lambda *a_, **k_: None
            r._update_coolant_byp_params = lambda *a_, **k_: None
            env.stub('correlated-parameter updates of the pin bundle are no-ops during the step')
            r._calc_coolant_int_temp = lambda dz__, qp__, qc__, ebal__=False: np.zeros(nsc)
            r._update_coolant = lambda *a_, **k_: None           # coolant properties frozen over the step
            env.stub('interior coolant update returns zero rise (only what the step does to the stored wall temperatures is claimed; the bypass updates are the real ones)')
            r.ebal = {kk: (np.array(vv, dtype=object if env.mode == 'sym' else float) if hasattr(vv, 'copy') else vv) for kk, vv in r.ebal.items()}
            if step == 'stagnant':
                r.byp_flow_rate = np.zeros(nduct - 1)
            qd = {'pins': np.zeros(r.n_pin), 'cool': np.zeros(nsc), 'duct': p_duct}
            r.calculate(env.pos('dz', hi=0.01), qd, t_gap, h_gap, adiabatic, False)
        didx = r._duct_idx
        for i in range(nduct):
            for c in range(nd):
                if i == 0:
                    T_in = Tc[nint + c]
                    h_in = hint[1:][didx[c]]
                else:
                    T_in = (Tb_old if step else r.temp['coolant_byp'])[i - 1][c]
                    h_in = r.coolant_byp_params['htc'][i - 1][didx[c]]
                if i == nduct - 1:
                    T_out = t_gap[c]
                    h_out = h_gap[didx[c]] if gap_len2 else h_gap[c]
                else:
                    T_out = (Tb_old if step else r.temp['coolant_byp'])[i][c]
                    h_out = r.coolant_byp_params['htc'][i][didx[c]]
                q = 0.0 if p_duct is None else p_duct[i * nd + c] / r.duct_params['q_area'][i, didx[c]]
                Ts_in = r.temp['duct_surf'][i, 0, c]
                Ts_out = r.temp['duct_surf'][i, 1, c]
                T_mw = r.temp['duct_mw'][i, c]
                last_adiab = adiabatic and i == nduct - 1
                tag = 'duct %d cell %d' % (i, c)
                _slab_claims(env, tag, h_in, h_out, k, th[i], q, T_in, Ts_in, T_mw, Ts_out, T_out, last_adiab)
                if p_duct is None:
                    if last_adiab:
                        env.eq(tag + ': unheated adiabatic wall at the inner coolant temperature (inner surface)', Ts_in, T_in)
                        env.eq(tag + ': unheated adiabatic wall at the inner coolant temperature (outer surface)', Ts_out, T_in)
                    else:
                        lo = core.sym_min(T_in, T_out) if env.mode == 'sym' else min(T_in, T_out)
                        hi = core.sym_max(T_in, T_out) if env.mode == 'sym' else max(T_in, T_out)
                        for nm, v in (('inner surface', Ts_in), ('mid-wall', T_mw), ('outer surface', Ts_out)):
                            env.ge('%s: unheated %s between the two coolant temperatures (lo)' % (tag, nm), v, lo)
                            env.le('%s: unheated %s between the two coolant temperatures (hi)' % (tag, nm), v, hi)
                        # in order
                        env.holds('%s: unheated wall temperatures ordered between the coolants' % tag, env.lor(
                            env.land(T_in >= Ts_in, Ts_in >= T_mw, T_mw >= Ts_out, Ts_out >= T_out),
                            env.land(T_in <= Ts_in, Ts_in <= T_mw, T_mw <= Ts_out, Ts_out <= T_out)))


def body_unrodded(env):
    model = env.params['model']
    adiabatic = env.params['adiabatic']
    with env.patch(MODS):
        built = env.params.get('built')
        t_wall = None
        if built:
            # the real constructor (shared by both low-fidelity models) on a symbolic flat-to-flat list of nduct walls given
            # in the stated order: the wall that is solved is the outermost one, whose outer face sees the gap
            nduct, order = built
            vals, prev = [], None
            for i in range(2 * nduct):
                v = env.pos('ftf%d' % i, hi=10)
                if prev is not None:
                    env.assume(v > prev)
                prev = v
                vals.append(v)
            r = rum.SingleNodeHomogeneous('ur', 0.0, 1.0, [vals[i] for i in order], 0.3, 1.0, None, None, None)
            t_wall = (vals[-1] - vals[-2]) / 2
        else:
            key = 'ur-' + model
            if key not in _FIX:
                _FIX[key] = fixtures.make_unrodded(model)
            r = copy.copy(_FIX[key])
        ncool = 1 if model == 'simple' else 6
        r.temp = dict(r.temp)
        Tc = _vec(env, 'Tcool', ncool, lo=200, hi=3000)
        r.temp['coolant_int'] = Tc
        r.temp['duct_mw'] = np.zeros((1, 6)) if env.mode == 'replay' else np.full((1, 6), 0.0, dtype=object)
        r.temp['duct_surf'] = np.zeros((1, 2, 6)) if env.mode == 'replay' else np.full((1, 2, 6), 0.0, dtype=object)
        h = env.pos('htc', hi=1e7)
        r.coolant_params = dict(r.coolant_params)
        r.coolant_params['htc'] = h
        k = env.pos('k_duct', hi=1e4)
        r.duct = _Duct(k)
        if t_wall is None:
            t = env.pos('thickness', hi=1.0, actual=r.duct_thickness)
            r.duct_thickness = t
        else:
            t = t_wall
        t_gap = _vec(env, 'Tgap', 6, lo=200, hi=3000)
        h_gap = _vec(env, 'htc_gap', 6, lo=0, hi=1e7)
        if env.params.get('via_calculate'):
            # the whole real step of the region (coolant first, then the wall): the options given to calculate() must reach
            # the wall solver
            r._update_coolant_params = lambda *a_, **k_: None
            env.stub('correlated-parameter update of the low-fidelity region is a no-op')
            r.ebal = {kk: (np.array(vv, dtype=object if env.mode == 'sym' else float) if hasattr(vv, 'copy') else vv) for kk, vv in r.ebal.items()}
            Tc_old = np.array(np.ravel(Tc), dtype=object if env.mode == 'sym' else float)
            if env.params.get('conv_approx'):
                r._conv_approx = True
            dz_ = env.pos('dz', hi=1)
            tally0 = np.array(np.ravel(r.ebal['duct']), dtype=object if env.mode == 'sym' else float)
            r.calculate(dz_, {'refl': env.nonneg('q_refl', hi=1e6)}, t_gap, h_gap, adiabatic, True)
            if model == 'simple' and not adiabatic:
                # unheated steady wall: what the coolant update books as heat received from the wall (per cell, over the step)
                # is what the wall solution lets in from the gap through the outer film -- also with the low-flow approximation
                # (coolant tied to the mid-wall through 1/h + L/2k)
                for c in range(6):
                    env.eq('simple cell %d: heat booked by the coolant update = outer film flux of the wall solution x contact length x step' % c,
                           np.ravel(r.ebal['duct'])[c] - tally0[c],
                           dz_ * r.duct_perim_over_6 * h_gap[c] * (t_gap[c] - r.temp['duct_surf'][0, 1, c]), tol=1e-9,
                           key='coolant_and_wall_disagree_on_the_wall_flux')
            # the simple model solves its wall before advancing the coolant (old level), the six-node model after (new level)
            Tc = Tc_old if model == 'simple' else np.ravel(r.temp['coolant_int'])
        else:
            r._calc_duct_temp(t_gap, h_gap, adiabatic)
        for c in range(6):
            T_in = Tc[0] if ncool == 1 else Tc[c]
            Ts_in = r.temp['duct_surf'][0, 0, c]
            Ts_out = r.temp['duct_surf'][0, 1, c]
            T_mw = r.temp['duct_mw'][0, c]
            tag = '%s cell %d' % (model, c)
            _slab_claims(env, tag, h, h_gap[c], k, t, 0.0, T_in, Ts_in, T_mw, Ts_out, t_gap[c], adiabatic)
            if adiabatic:
                env.eq(tag + ': adiabatic unheated wall at the coolant temperature', T_mw, T_in)
            else:
                env.holds('%s: unheated wall temperatures ordered between the coolants' % tag, env.lor(
                    env.land(T_in >= Ts_in, Ts_in >= T_mw, T_mw >= Ts_out, Ts_out >= t_gap[c]),
                    env.land(T_in <= Ts_in, Ts_in <= T_mw, T_mw <= Ts_out, Ts_out <= t_gap[c])))


def instances(tier):
    inst = []
    for nduct in (1, 2, 3):
        for adiabatic in (False, True):
            for gap_len2 in (True, False):
                for power in ('none', 'sym'):
                    if adiabatic and not gap_len2:
                        continue
                    inst.append(dict(label='rodded[ducts=%d,adiabatic=%s,htc_gap=%s,power=%s]' % (
                        nduct, adiabatic, 'edge/corner pair' if gap_len2 else 'per cell', power), body=body_rodded,
                        params={'n_duct': nduct, 'adiabatic': adiabatic, 'gap_len2': gap_len2, 'power': power},
                        timeout_ms=120000))
    # more than one edge cell per side (the type index pattern of the wall cells changes with the ring count)
    for nring, nduct in (((3, 2),) if tier == 'quick' else ((3, 1), (3, 2), (3, 3), (4, 2), (6, 1))):
        for power in ('none', 'sym'):
            inst.append(dict(label='rodded[rings=%d,ducts=%d,adiabatic=False,htc_gap=edge/corner pair,power=%s]' % (nring, nduct, power),
                             body=body_rodded, params={'n_duct': nduct, 'n_ring': nring, 'adiabatic': False, 'gap_len2': True, 'power': power},
                             timeout_ms=120000))
    for nduct, step in ((1, 'flowing'), (2, 'flowing'), (2, 'stagnant'), (3, 'stagnant')):
        inst.append(dict(label='rodded-step[ducts=%d,bypass %s]' % (nduct, step), body=body_rodded,
                         params={'n_duct': nduct, 'adiabatic': False, 'gap_len2': True, 'power': 'sym', 'step': step}, timeout_ms=120000))
    for model in ('simple', '6node'):
        for adiabatic in (False, True):
            inst.append(dict(label='unrodded[%s,adiabatic=%s]' % (model, adiabatic), body=body_unrodded,
                             params={'model': model, 'adiabatic': adiabatic}))
            inst.append(dict(label='unrodded-step[%s,adiabatic=%s]' % (model, adiabatic), body=body_unrodded,
                             params={'model': model, 'adiabatic': adiabatic, 'via_calculate': True}))
            if not adiabatic:
                inst.append(dict(label='unrodded-step[%s,adiabatic=False,low-flow wall approximation]' % model, body=body_unrodded,
                                 params={'model': model, 'adiabatic': False, 'via_calculate': True, 'conv_approx': True}))
    for nd, order in ((1, (1, 0)), (2, (0, 1, 2, 3)), (2, (2, 3, 0, 1)), (3, (0, 1, 2, 3, 4, 5))):
        inst.append(dict(label='unrodded-built[walls=%d,ftf list order %s]' % (nd, ''.join(map(str, order))), body=body_unrodded,
                         params={'model': 'simple', 'adiabatic': False, 'built': (nd, order)}))
    return inst


def main():
    a = runner.main_args()
    inst = runner.select(instances(a.tier), a.only)
    runner.run_check(
        'C11', inst, a.tier,
        explanation=('The real duct-temperature methods run on a real 2-ring bundle (1-3 ducts) and on both low-fidelity regions '
                     'with every temperature, film coefficient, conductivity, wall thickness and wall power symbolic; for each '
                     'wall cell the two flux boundary conditions, the mid-wall closed form and (unheated) the ordering between the '
                     'adjacent coolant temperatures are SMT queries.'),
        bounds={'rings': '2, and 3 with two ducts (quick) / 2..4 and 6', 'ducts': '1..3', 'cells': 'all wall cells of the bundle (12) / 6 for low-fidelity regions',
                'gap htc': 'edge/corner pair and per-cell arrays', 'wall power': 'none and arbitrary >= 0'},
        outside=['ring counts beyond the listed ones (the per-cell formulas do not depend on the ring count; only the index maps do)',
                 'temperature-dependent duct conductivity (one value per duct and step, as the code uses)'],
        level_assumptions=['film coefficients, conductivity, thickness > 0; wall power >= 0'])


if __name__ == '__main__':
    main()
