"""C05 -- axial mesh finite, strictly increasing, exact on boundaries, within limit.

Real code executed symbolically (dassh/reactor.py): Reactor._setup_overall_axial_mesh_req,
Reactor._check_dz, Reactor._setup_zpts (whole loop, bounded, and its body as an inductive
step), Reactor._setup_axial_region_bnds.  `self` is a stub carrying only the attributes the
methods read.  Lengths are reals; np.around(x, 12)/np.floor are modelled with fresh integers
(round-half-up on the reals, DESIGN 2.2).
"""
import sys

import numpy as np

from symx import runner, core
from symx.core import Sym
from harness.common import StubSelf

import dassh.reactor as rm

G = 10 ** 12
core.SOLVER_ORDER = ('cvc5', 'z3')     # mixed integer/real rounding queries: cvc5 decides in ms what z3 4.x/5.x leaves unknown
MODS = [rm]


def body_req(env):
    """Choice of the step: required vs requested, floor to 1e-6, 1 cm cap."""
    k = env.params['n_req']
    user = env.params['user']
    with env.patch(MODS):
        mins = [env.real('min_dz%d' % i, lo=0, hi=10) for i in range(k)]
        s = StubSelf(min_dz={'dz': list(mins)}, _options={'axial_mesh_size': None})
        if user:
            s._options['axial_mesh_size'] = env.real('user_dz', lo=0, lo_strict=False, hi=10)
        try:
            rm.Reactor._setup_overall_axial_mesh_req(s)
        except SystemExit:
            env.holds('rejected with an error message', any(l == 'error' for l, _ in s._log))
            env.stop()
        req = s.req_dz
        for i in range(k):
            env.le('req_dz <= min_dz[%d]' % i, req, mins[i])
        # progress needs a step that is visible on the 1e-12 grid (else _setup_zpts hangs)
        env.ge('accepted step can advance the 1e-12 m grid (req_dz >= 1e-12)', req, 1e-12,
               key='req_dz_cannot_advance')
        if user:
            u = s._options['axial_mesh_size']
            lim = mins[0]
            for m in mins[1:]:
                lim = m if m < lim else lim        # forks
            if u > lim:
                env.holds('request above the limit is ignored', req != u)
            else:
                # honoured whenever it is below the (1e-6 floored) requirement
                if u * 1e6 + 1 <= lim * 1e6:
                    env.eq('request below the limit is honoured', req, u)


def _bnds(env, nb):
    """nb boundaries on the 1e-12 grid, strictly increasing, first > 0."""
    ks = [env.integer('k%d' % i, lo=1, hi=20 * G) for i in range(nb)]
    for i in range(nb - 1):
        env.assume(ks[i + 1] > ks[i])
    arr = np.empty(nb + 1, dtype=object)
    arr[0] = 0.0
    for i in range(nb):
        arr[i + 1] = ks[i] / G
    return (arr.astype(float) if env.mode == 'replay' else arr), ks


def body_step(env):
    """One iteration of the _setup_zpts loop from an arbitrary grid plane."""
    nb = env.params['nb']
    with env.patch(MODS) as snp:
        bnds, ks = _bnds(env, nb)
        req = env.real('req_dz', lo=1e-12, lo_strict=False, hi=10)
        s = StubSelf(axial_bnds=bnds, core_length=bnds[-1], req_dz=req)
        kz = env.integer('kz', lo=0)
        env.assume(kz < ks[-1])
        z = kz / G
        dz = rm.Reactor._check_dz(s, z)
        znew = snp.around(z + dz, 12)          # statement of the loop body
        env.gt('progress: next plane above current', znew, z)
        env.ge('progress is at least one grid unit', znew - z, 1e-12)
        env.gt('dz > 0', dz, 0)
        env.le('dz <= req_dz', dz, req)
        env.le('plane spacing = dz to half a grid unit (hi)', znew - z - dz, 0.5e-12 * 1.0000001)
        env.ge('plane spacing = dz to half a grid unit (lo)', znew - z - dz, -0.5e-12 * 1.0000001)
        for i in range(1, nb + 1):
            b = bnds[i]
            env.holds('boundary %d not skipped' % i, env.lnot(env.land(z < b, b < znew)))
        env.le('never beyond the core length', znew, bnds[-1])


def body_loop(env):
    """The whole real _setup_zpts loop, bounded: core length <= nsteps * req_dz."""
    nb = env.params['nb']
    nsteps = env.params['nsteps']
    with env.patch(MODS):
        bnds, ks = _bnds(env, nb)
        req = env.real('req_dz', lo=1e-6, lo_strict=False, hi=10)
        env.assume(bnds[-1] <= req * nsteps)
        s = StubSelf(_bind=(rm.Reactor, ['_check_dz']), axial_bnds=bnds, core_length=bnds[-1], req_dz=req)
        z, dz = rm.Reactor._setup_zpts(s)
        env.holds('starts at 0', z[0] == 0.0)
        env.eq('ends exactly at the core length', z[-1], bnds[-1])
        for i in range(len(z) - 1):
            env.gt('strictly increasing %d' % i, z[i + 1], z[i])
            env.le('step %d <= req_dz' % i, dz[i], req)
        for j in range(1, nb + 1):
            hit = None
            for i in range(len(z)):
                c = (z[i] == bnds[j])
                hit = c if hit is None else env.lor(hit, c)
            env.holds('boundary %d is a plane' % j, hit)
        env.holds('finite', len(z) <= nsteps + nb + 2)


class _Inp:
    def __init__(self, data):
        self.data = data


def body_merge(env):
    """Boundary merge: round to 1e-12, discard duplicates."""
    n = env.params['n']
    with env.patch(MODS):
        vals = [env.real('b%d' % i, lo=0, lo_strict=False, hi=20) for i in range(n)]
        # distribute over the sources the real method reads: two assemblies in the user power, two assembly
        # types with an axial region each, user-requested planes (the first assembly / type is never the only one)
        def zfm_of(v):
            z = np.empty(1, dtype=object)
            z[0] = v * 100            # the method multiplies by 1e-2
            return z.astype(float) if env.mode == 'replay' else z
        pw = [[None, {'zfm': zfm_of(v)}] for v in vals[:2]]
        rest = vals[2:]
        regs = {}
        if len(rest) > 0:
            regs['a'] = {'AxialRegion': {'r1': {'z_lo': rest[0], 'z_hi': rest[0]}}}
        if len(rest) > 1:
            regs['b'] = {'AxialRegion': {'r1': {'z_lo': rest[1], 'z_hi': rest[1]}, 'r2': {'z_lo': rest[1], 'z_hi': rest[1]}}}
        src_user = rest[2:]
        s = StubSelf(power={'user': pw}, _options={'axial_plane': list(src_user) if src_user else None})
        inp = _Inp({'Assembly': regs})
        rm.Reactor._setup_axial_region_bnds(s, inp)
        out = s.axial_bnds
        for i in range(len(out) - 1):
            env.ge('merged boundaries strictly increasing, >= 1 grid unit apart (%d)' % i,
                   out[i + 1] - out[i], 1e-12 * 0.999999)
        env.eq('core length is the last boundary', s.core_length, out[-1])
        for j, v in enumerate(vals):
            near = None
            for i in range(len(out)):
                d = out[i] - (v * 100 * 1e-2 if j < 2 else v)
                c = env.land(d <= 0.5e-12 * 1.0000001, d >= -0.5e-12 * 1.0000001)
                near = c if near is None else env.lor(near, c)
            env.holds('input boundary %d survives the merge (to rounding)' % j, near)


def body_reactor_req(env):
    """Set-up glue of a real Reactor (enumeration of cores; no symbolic dimension): the step the mesh is built with respects
    *every* stability requirement -- each assembly's and the inter-assembly gap's, recomputed here with the real
    calculate_min_dz routines on the finished objects -- and a user step above the limit is not honoured."""
    import dassh
    from harness import symcore as SC
    r = SC.build_reactor(env.params['layout'], gap_model=env.params['gap_model'], bypass_fraction=env.params['bypass'],
                         setup_lines=env.params.get('setup', ()))
    reqs = []
    t_out = dassh.utils.Q_equals_mCdT(r.total_power, r.inlet_temp, r.core.gap_coolant, mfr=r.flow_rate)
    g, _ = dassh.core.calculate_min_dz(r.core, r.inlet_temp, t_out)
    if g is not None:
        reqs.append(('inter-assembly gap', float(g)))
    import dassh.region_rodded as rrm_
    import dassh.region_unrodded as rum_
    for i, a in enumerate(r.assemblies):
        # region by region with the region-level criteria (not through the assembly-level aggregation used by the set-up)
        for k, reg in enumerate(a.region):
            f = rrm_.calculate_min_dz if reg.is_rodded else rum_.calculate_min_dz
            v, _ = f(reg, r.inlet_temp, a._estimated_T_out, r._is_adiabatic)
            reqs.append(('assembly %d region %d (%s)' % (i, k, reg.name), float(v)))
    for i, v in enumerate(r.min_dz['dz'][:len(r.assemblies)]):
        reqs.append(('assembly entry %d as recorded' % i, float(v)))
    if env.params['gap_model'] == 'flow':
        env.holds('the gap model with flowing coolant has a step requirement', g is not None)
    lim = min(v for _, v in reqs)
    if env.params.get('gap_limiting'):
        env.holds('fixture: the gap requirement is the limiting one', g is not None and float(g) == lim)
    for nm, v in reqs:
        env.holds('step used to build the mesh <= requirement of %s' % nm, float(r.req_dz) <= v, key='mesh_step_exceeds_requirement')
    env.holds('every step of the mesh <= every stability requirement', float(np.max(r.dz)) <= lim * (1 + 1e-12), key='mesh_step_exceeds_requirement')
    user = r._options.get('axial_mesh_size')
    if user is not None and user > lim:
        env.holds('user step above the limit not honoured', float(np.max(r.dz)) < user, key='mesh_step_exceeds_requirement')


def instances(tier):
    inst = []
    for k in ((1, 2) if tier == 'quick' else (1, 2, 3)):
        for user in (False, True):
            inst.append(dict(label='req[n=%d,user=%s]' % (k, user), body=body_req,
                             params={'n_req': k, 'user': user}))
    for nb in ((1, 2, 3) if tier == 'quick' else (1, 2, 3, 4, 5)):
        inst.append(dict(label='step[nb=%d]' % nb, body=body_step, params={'nb': nb}, max_paths=4000))
    loops = [(1, 2), (1, 3), (2, 2)] if tier == 'quick' else [(1, 2), (1, 3), (1, 4), (2, 2), (2, 3), (3, 2), (2, 4)]
    for nb, ns in loops:
        inst.append(dict(label='loop[nb=%d,nsteps<=%d]' % (nb, ns), body=body_loop,
                         params={'nb': nb, 'nsteps': ns}, max_paths=6000, max_depth=200))
    for n in ((2, 3, 4) if tier == 'quick' else (2, 3, 4, 5)):
        inst.append(dict(label='merge[n=%d]' % n, body=body_merge, params={'n': n}, max_paths=3000))
    for layout, gm, bf, setup in (('two-a2-a3', 'flow', 0.05, ()), ('two-a2-a3', 'flow', 0.0005, ()), ('seven-mixed', 'flow', 0.001, ()),
                                  ('three-a3-dd-u6', 'flow', 0.0005, ('axial_mesh_size = 0.004',)), ('two-a2-a3', 'no_flow', 0.05, ()),
                                  ('two-a2-a3', 'duct_average', 0.05, ()), ('two-au-a2', 'none', 0.05, ()), ('three-al-au-a2', 'none', 0.05, ()),
                                  ('two-au-a2', 'no_flow', 0.05, ())):
        inst.append(dict(label='reactor-requirement[%s,gap=%s,bypass=%g%s]' % (layout, gm, bf, ',user step' if setup else ''), body=body_reactor_req,
                         params={'layout': layout, 'gap_model': gm, 'bypass': bf, 'setup': setup, 'gap_limiting': gm == 'flow' and bf < 0.01}, check_vacuity=False))
    return inst


def main():
    a = runner.main_args()
    inst = runner.select(instances(a.tier), a.only)
    runner.run_check(
        'C05', inst, a.tier,
        explanation=('Bounded symbolic execution of the real mesh-construction methods of dassh/reactor.py on z3 reals '
                     '(np.around/np.floor as integer-rounding axioms); every claim is an SMT query per path; '
                     'termination follows from the inductive step "every iteration advances by >= 1e-12 m and never '
                     'passes the core length", which is also cross-checked by running the whole loop for bounded lengths.'),
        bounds={'min_dz entries': '1..2 (quick) / 1..3', 'boundaries in the step/loop harness': '1..3 (quick) / 1..5',
                'whole-loop unrolling': 'core length <= 2..4 required steps', 'merged boundary values': '2..4 (quick) / 2..5, spread over two user-power assemblies, two assembly types and requested planes',
                'value ranges': 'min_dz, user step in (0,10] m; boundaries on the 1e-12 grid up to 20 m'},
        outside=['IEEE behaviour of np.around at exact ties (round-half-even vs the round-half-up model)',
                 'more boundaries than the bound', 'DIF3D binary mesh source'],
        level_assumptions=['z (current plane) is a multiple of 1e-12 m: it is 0.0 or an output of np.around(.,12)',
                           'step harness assumes req_dz >= 1e-12, which the req harness proves for every accepted outcome'])


if __name__ == '__main__':
    main()
