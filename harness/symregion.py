"""Shared builder: a real RoddedRegion whose *derived state* is symbolic (DESIGN 2.5).

The region is constructed concretely by the real constructor (topology, index maps), then the
geometric constants, flow rate, material properties, correlated parameters and temperature
fields are replaced by solver variables and the real set-up methods (_setup_region,
_setup_flowrate, _setup_ht_constants) are re-run on them.  The invariants tying the symbols
together (bundle area = sum of subchannel areas, L symmetric, L[1][1] = pin pitch, bypass total
area = sum of its cells) are those proved from calculate_geometry by C08.
"""
import copy

import numpy as np

from symx import fixtures

import dassh.region_rodded as rrm
import dassh.region as rgm
import dassh.region_unrodded as rum

MODS = [rrm, rgm, rum]
_BASE = {}


class SymMat:
    """Material stand-in: property values are whatever the harness put there; update() is a
    no-op (properties frozen over the step: the constant-property case of the statements)."""

    def __init__(self, **kw):
        for k, v in kw.items():
            setattr(self, k, v)

    def update(self, T):
        pass


def base_region(n_ring, n_duct, wwdir='clockwise', byp_ff=0.05, corr=('CTD', 'CTD', 'CTD')):
    key = (n_ring, n_duct, wwdir, byp_ff, corr)
    if key not in _BASE:
        _BASE[key] = fixtures.make_rodded(n_ring, n_duct, byp_ff=byp_ff if n_duct > 1 else None,
                                          wwdir=wwdir, corr=corr)
    return _BASE[key]


def _arr(env, vals):
    a = np.empty(len(vals), dtype=object)
    for i, v in enumerate(vals):
        a[i] = v
    return a.astype(float) if env.mode == 'replay' else a


def _arr2(env, rows):
    a = np.empty((len(rows), len(rows[0])), dtype=object)
    for i, r in enumerate(rows):
        for j, v in enumerate(r):
            a[i, j] = v
    return a.astype(float) if env.mode == 'replay' else a


def sym_rodded(env, n_ring, n_duct, wwdir='clockwise', stagnant=False, conv_approx=False,
               fields=True, tag='', exact_q=True, props=None):
    """Returns a region `r` (shallow copy of the real one) with symbolic derived state."""
    b = base_region(n_ring, n_duct, wwdir, 0.0 if stagnant else 0.05)
    r = copy.copy(b)
    t = tag
    sc = r.subchannel
    nsc = sc.n_sc['coolant']['total']
    nd = sc.n_sc['duct']['total']
    nbyp = n_duct - 1
    N = [sc.n_sc['coolant'][k] for k in ('interior', 'edge', 'corner')]
    # ---- derived geometry
    A = [env.pos('%sarea%d' % (t, i), hi=1, actual=b.params['area'][i]) for i in range(3)]
    r.params = dict(b.params)
    r.params['area'] = _arr(env, A)
    Ab = A[0] * N[0] + A[1] * N[1] + A[2] * N[2]
    r.bundle_params = dict(b.bundle_params)
    r.bundle_params['area'] = Ab
    r.bundle_params['de'] = env.pos(t + 'bundle_de', hi=1, actual=b.bundle_params['de'])
    P = env.pos(t + 'pin_pitch', hi=1, actual=b.pin_pitch)
    r.pin_pitch = P
    L = [[0.0] * 7 for _ in range(7)]
    Lv = {}
    for i in range(3):
        for j in range(3):
            bv = b.L[i][j]
            if isinstance(bv, (int, float)) and bv == 0.0:
                continue
            key = (min(i, j), max(i, j))
            if key == (1, 1):
                Lv[key] = P
            elif key not in Lv:
                Lv[key] = env.pos('%sL%d%d' % (t, key[0], key[1]), hi=1, actual=bv)
            L[i][j] = Lv[key]
    d = dict(b.d)
    d['pin-pin'] = env.pos(t + 'd_pin_pin', hi=1, actual=b.d['pin-pin'])
    d['pin-wall'] = env.pos(t + 'd_pin_wall', hi=1, actual=b.d['pin-wall'])
    d['wall'] = _arr(env, [env.pos('%sd_wall%d' % (t, i), hi=1, actual=b.d['wall'][i]) for i in range(n_duct)])
    d['wcorner'] = _arr2(env, [[env.pos('%swcorner%d_%d' % (t, i, k), hi=1, actual=b.d['wcorner'][i, k]) for k in range(2)]
                               for i in range(n_duct)])
    # GEOM (C08): corner wall lengths grow outward
    for i in range(n_duct):
        env.assume(d['wcorner'][i][1] > d['wcorner'][i][0])
        if i:
            env.assume(d['wcorner'][i][0] > d['wcorner'][i - 1][1])
    if nbyp:
        d['bypass'] = _arr(env, [env.pos('%sd_bypass%d' % (t, i), hi=1, actual=b.d['bypass'][i]) for i in range(nbyp)])
        L[5][5] = [P for _ in range(nbyp)]
        L[5][6] = [env.pos('%sL56_%d' % (t, i), hi=1, actual=b.L[5][6][i]) for i in range(nbyp)]
        L[6][5] = L[5][6]
        L[6][6] = [env.pos('%sL66_%d' % (t, i), hi=1, actual=b.L[6][6][i]) for i in range(nbyp)]
        bp = dict(b.bypass_params)
        ba = [[env.pos('%sbyp_area%d_%d' % (t, i, k), hi=1, actual=b.bypass_params['area'][i, k]) for k in range(2)]
              for i in range(nbyp)]
        bp['area'] = _arr2(env, ba)
        bp['total area'] = _arr(env, [ba[i][0] * N[1] + ba[i][1] * 6 for i in range(nbyp)])
        bp['total de'] = _arr(env, [env.pos('%sbyp_de%d' % (t, i), hi=1, actual=b.bypass_params['total de'][i]) for i in range(nbyp)])
        r.bypass_params = bp
    r.d = d
    r.L = L
    dp = dict(b.duct_params)
    th = [env.pos('%sduct_thickness%d' % (t, i), hi=1, actual=b.duct_params['thickness'][i]) for i in range(n_duct)]
    dp['thickness'] = _arr(env, th)
    dp['L/2'] = _arr(env, [x / 2 for x in th])
    dp['L^2/8'] = _arr(env, [x * x / 8 for x in th])
    da = [[P * th[i], th[i] * (d['wcorner'][i][1] + d['wcorner'][i][0])] for i in range(n_duct)]
    dp['area'] = _arr2(env, da)
    dp['q_area'] = _arr2(env, [[da[i][0], 2 * th[i] * d['wcorner'][i][1]] for i in range(n_duct)])
    dp['total area'] = _arr(env, [da[i][0] * N[1] + da[i][1] * 6 for i in range(n_duct)])
    r.duct_params = dp
    if exact_q and env.mode == 'sym':
        import fractions
        q = [fractions.Fraction(1, 6), fractions.Fraction(1, 4), fractions.Fraction(1, 6)]
        r._q_p2sc = np.array([q[ty] for ty in sc.type[:nsc]], dtype=object)
        env.assumption('pin heat fractions are exactly 1/6, 1/4, 1/6 (the float literals agree to 2e-15: C08)')
    # ---- areas / temps containers (real DASSH_Region.__init__ through the real _setup_region)
    r._setup_region()
    # ---- flow
    FR = env.pos(t + 'flow_rate', hi=1e4, actual=1.0)
    if nbyp and not stagnant:
        r._byp_ff = env.real(t + 'bypass_flow_fraction', lo=0, hi=1, hi_strict=True, actual=0.05)
    elif nbyp:
        r._byp_ff = 0.0
    r._setup_flowrate(FR)
    r._setup_ht_constants()
    # ---- materials and correlated parameters
    pr = props or {}
    r.coolant = SymMat(heat_capacity=pr.get('cp') or env.pos(t + 'cp', hi=1e6, nominal=1275.0),
                       density=pr.get('rho') or env.pos(t + 'rho', hi=1e5, nominal=850.0),
                       thermal_conductivity=pr.get('k') or env.pos(t + 'k_cool', hi=1e4, nominal=75.0),
                       viscosity=pr.get('mu') or env.pos(t + 'mu', hi=10, nominal=2.5e-4))
    r.duct = SymMat(thermal_conductivity=pr.get('kw') or env.pos(t + 'k_duct', hi=1e4, nominal=25.0))
    env.stub('Material objects replaced by holders of arbitrary positive property values (update() is a no-op)')
    r.coolant_int_params = dict(b.coolant_int_params)
    fs = [env.pos('%sfs%d' % (t, i), hi=100, nominal=[0.9, 1.1, 0.8][i]) for i in range(3)]
    r.coolant_int_params['fs'] = _arr(env, fs)
    r.coolant_int_params['htc'] = _arr(env, [env.pos('%shtc%d' % (t, i), hi=1e8, nominal=8e4 + 1e4 * i) for i in range(3)])
    sw = env.nonneg(t + 'swirl', hi=1e3, nominal=0.3)
    r.coolant_int_params['swirl'] = _arr(env, [0.0, sw, sw])
    r.coolant_int_params['eddy'] = env.nonneg(t + 'eddy', hi=1e3, nominal=2e-4)
    env.stub('correlated parameters (flow split, htc, eddy diffusivity, swirl velocity) are arbitrary values obeying '
             'fs, htc > 0; eddy, swirl >= 0; swirl[edge] = swirl[corner] (what C12 proves of the correlations)')
    r._sf = env.pos(t + 'shape_factor', hi=100, nominal=1.2)
    r._conv_approx = conv_approx
    if nbyp:
        r.coolant_byp_params = dict(b.coolant_byp_params)
        r.coolant_byp_params['htc'] = _arr2(env, [[env.pos('%shtc_byp%d_%d' % (t, i, k), hi=1e8, nominal=3e4 + 1e3 * k) for k in range(2)]
                                                  for i in range(nbyp)])
    # ---- fields
    if fields:
        r.temp['coolant_int'] = _arr(env, [env.real('%sT%d' % (t, i), lo=200, hi=3000) for i in range(nsc)])
        if nbyp:
            r.temp['coolant_byp'] = _arr2(env, [[env.real('%sTbyp%d_%d' % (t, i, c), lo=200, hi=3000) for c in range(nd)]
                                                for i in range(nbyp)])
        mw = np.empty((n_duct, nd), dtype=object)
        ds = np.empty((n_duct, 2, nd), dtype=object)
        for i in range(n_duct):
            for c in range(nd):
                mw[i, c] = env.real('%sTmw%d_%d' % (t, i, c), lo=200, hi=3000)
                ds[i, 0, c] = env.real('%sTsin%d_%d' % (t, i, c), lo=200, hi=3000)
                ds[i, 1, c] = env.real('%sTsout%d_%d' % (t, i, c), lo=200, hi=3000)
        r.temp['duct_mw'] = mw.astype(float) if env.mode == 'replay' else mw
        r.temp['duct_surf'] = ds.astype(float) if env.mode == 'replay' else ds
    return r


def fractions_sixth():
    import fractions
    return fractions.Fraction(1, 6)


def sym_unrodded(env, model='simple', conv_approx=False, tag='', fields=True):
    key = ('ur', model)
    if key not in _BASE:
        _BASE[key] = fixtures.make_unrodded(model)
    b = _BASE[key]
    r = copy.copy(b)
    t = tag
    ncool = 1 if model == 'simple' else 6
    r.temp = {}
    # node areas: equal by construction (total / number of nodes); kept symbolic so that no
    # concrete float geometry is mixed into exact identities (DESIGN 2.5)
    a_node = env.pos(t + 'node_area', hi=10, actual=float(np.ravel(b.area['coolant_int'])[0]))
    a_duct = env.pos(t + 'duct_node_area', hi=10, actual=float(b.area['duct_mw'][0, 0]))
    r.area = {'coolant_int': (_arr(env, [a_node] * ncool) if ncool > 1 else a_node),
              'duct_mw': _arr2(env, [[a_duct] * 6]),
              'duct_mw_over_total': _arr2(env, [[a_duct / (6 * a_duct)] * 6]) if env.mode == 'replay' else
              np.array([[fractions_sixth()] * 6], dtype=object)}
    r.total_area = {'coolant_int': a_node * ncool, 'duct_mw': _arr(env, [a_duct * 6])}
    if fields:
        r.temp['coolant_int'] = _arr(env, [env.real('%sT%d' % (t, i), lo=200, hi=3000) for i in range(ncool)])
        mw = np.empty((1, 6), dtype=object)
        ds = np.empty((1, 2, 6), dtype=object)
        for c in range(6):
            mw[0, c] = env.real('%sTmw%d' % (t, c), lo=200, hi=3000)
            ds[0, 0, c] = env.real('%sTsin%d' % (t, c), lo=200, hi=3000)
            ds[0, 1, c] = env.real('%sTsout%d' % (t, c), lo=200, hi=3000)
        r.temp['duct_mw'] = mw.astype(float) if env.mode == 'replay' else mw
        r.temp['duct_surf'] = ds.astype(float) if env.mode == 'replay' else ds
    else:
        one = (lambda shp: np.ones(shp)) if env.mode == 'replay' else (lambda shp: np.full(shp, 1.0, dtype=object))
        r.temp['coolant_int'] = one(ncool)
        r.temp['duct_mw'] = one((1, 6))
        r.temp['duct_surf'] = one((1, 2, 6))
    r.ebal = {'power': 0.0, 'duct': np.zeros(6) if env.mode == 'replay' else np.full(6, 0.0, dtype=object),
              'per_hex_side': np.zeros(6)}
    r.flow_rate = env.pos(t + 'flow_rate', hi=1e4, actual=1.0)
    r.coolant = SymMat(heat_capacity=env.pos(t + 'cp', hi=1e6), density=env.pos(t + 'rho', hi=1e5),
                       thermal_conductivity=env.pos(t + 'k_cool', hi=1e4), viscosity=env.pos(t + 'mu', hi=10))
    r.duct = SymMat(thermal_conductivity=env.pos(t + 'k_duct', hi=1e4))
    r.coolant_params = dict(b.coolant_params)
    r.coolant_params['htc'] = env.pos(t + 'htc', hi=1e8)
    r.duct_thickness = env.pos(t + 'duct_thickness', hi=1, actual=b.duct_thickness)
    r.duct_perim_over_6 = env.pos(t + 'duct_perim_over_6', hi=10, actual=b.duct_perim_over_6)
    r.duct_perim = 6 * r.duct_perim_over_6
    r._conv_approx = conv_approx
    env.stub('Material objects replaced by holders of arbitrary positive property values (update() is a no-op)')
    return r
