"""C20 -- orifice grouping partitions the assemblies into exactly the requested number of
contiguous groups (or errors); flow distribution conserves the total flow, gives equal flow
inside a group and respects the pressure-drop limit.

Real code executed symbolically (dassh/orificing.py): Orificing._group (whole method under a
fork-depth budget), Orificing._check_new_group, the body / prologue / epilogue of the
fixed-point loop of Orificing.distribute (lifted from the current source with symx.loops),
dassh.utils.Q_equals_mCdT.
"""
import numpy as np

from symx import runner, core, loops
from harness.common import StubSelf

import dassh
import dassh.orificing as om
import dassh.utils as um

MODS = [om, um]


# ------------------------------------------------------------------ grouping
def body_group(env):
    N = env.params['N']
    ng = env.params['n_groups']
    with env.patch(MODS):
        powers = [env.pos('power%d' % i, hi=1e9) for i in range(N)]
        cutoff = env.pos('group_cutoff', hi=10)
        delta = env.pos('group_cutoff_delta', hi=10)
        s = StubSelf(orifice_input={'group_cutoff': cutoff, 'group_cutoff_delta': delta, 'n_groups': ng},
                     _check_new_group=om.Orificing._check_new_group)
        params = np.empty((N, 2), dtype=object)
        for i in range(N):
            params[i, 0] = float(i)
            params[i, 1] = powers[i]
        if env.mode == 'replay':
            params = params.astype(float)
        try:
            g = om.Orificing._group(s, params)
        except SystemExit:
            env.holds('stops with an error message', any(l == 'error' for l, _ in s._log))
            env.stop()
        ids = sorted(int(x) for x in g[:, 0])
        env.holds('every assembly appears exactly once', ids == list(range(N)))
        for i in range(N):
            env.eq('row %d carries the power of its assembly' % i, g[i, 1], powers[int(g[i, 0])])
        for i in range(N - 1):
            env.ge('ordered by grouping parameter (row %d >= row %d)' % (i, i + 1), g[i, 1], g[i + 1, 1])
        labels = [int(x) for x in g[:, 2]]
        env.holds('first group is 0', labels[0] == 0)
        env.holds('groups contiguous and non-empty (labels step by 0 or 1)',
                  all(labels[i + 1] - labels[i] in (0, 1) for i in range(N - 1)))
        env.holds('exactly the requested number of groups', labels[-1] + 1 == ng,
                  key='group_count_not_requested')


def _compositions(n, k):
    if k == 1:
        yield [n]
        return
    for first in range(1, n - k + 2):
        for rest in _compositions(n - first, k - 1):
            yield [first] + rest


def body_group_iter(env):
    """One iteration of the cut-off search of _group from an arbitrary cut-off (lifted body)."""
    N = env.params['N']
    ng = env.params['n_groups']
    with env.patch(MODS):
        # params already sorted (descending) by the prologue, which group-run covers
        powers = [env.pos('power%d' % i, hi=1e9) for i in range(N)]
        for i in range(N - 1):
            env.assume(powers[i] >= powers[i + 1])
        cutoff = env.pos('cutoff', hi=100)
        delta = env.pos('group_cutoff_delta', hi=10)
        s = StubSelf(orifice_input={'n_groups': ng}, _check_new_group=om.Orificing._check_new_group)
        params = np.empty((N, 2), dtype=object)
        for i in range(N):
            params[i, 0] = float(i)
            params[i, 1] = powers[i]
        if env.mode == 'replay':
            params = params.astype(float)
        body, test = loops.while_body(om.Orificing._group, 0)
        L = body({'self': s, 'params': params, 'cutoff': cutoff, 'cutoff_delta': delta, 'n_grp': ng + 1, 'iter': 0})
        gp = L['grp_param']
        flat = [x for g in gp for x in g]
        env.holds('labelling keeps every assembly, in order', len(flat) == N)
        for i in range(min(N, len(flat))):
            env.eq('position %d of the labelling is assembly %d' % (i, i), flat[i], powers[i])
        env.holds('all groups non-empty', all(len(g) > 0 for g in gp))
        env.holds('group count is the number of groups built', L['n_grp'] == len(gp))
        if L['n_grp'] > ng:
            env.gt('too many groups: cut-off relaxed', L['cutoff'], cutoff)
        elif L['n_grp'] < ng:
            env.lt('too few groups: cut-off tightened', L['cutoff'], cutoff, key='cutoff_not_tightened')
            env.gt('cut-off stays positive', L['cutoff'], 0)
        else:
            env.holds('requested count reached: loop exits', not test(L))


def body_group_exit(env):
    """Loop exit + epilogue of _group from any state with k groups after `iter` iterations."""
    N = env.params['N']
    ng = env.params['n_groups']
    comp = env.params['comp']
    with env.patch(MODS):
        powers = [env.pos('power%d' % i, hi=1e9) for i in range(N)]
        s = StubSelf(orifice_input={'n_groups': ng})
        params = np.empty((N, 2), dtype=object)
        for i in range(N):
            params[i, 0] = float(i)
            params[i, 1] = powers[i]
        if env.mode == 'replay':
            params = params.astype(float)
        gp, k0 = [], 0
        for c in comp:
            gp.append([powers[i] for i in range(k0, k0 + c)])
            k0 += c
        it = env.params['iter']
        _body, test = loops.while_body(om.Orificing._group, 0)
        L0 = {'self': s, 'params': params, 'n_grp': len(gp), 'iter': it, 'grp_param': gp}
        if test(L0):
            env.stop()             # loop continues: not an exit state
        after = loops.after_loop(om.Orificing._group, 0)
        try:
            L = after(L0)
        except SystemExit:
            env.holds('stops with an error message', any(l == 'error' for l, _ in s._log))
            env.stop()
        g = L['__return']
        labels = [int(x) for x in g[:, 2]]
        env.holds('labels follow the groups built', labels == [i for i, c in enumerate(comp) for _ in range(c)])
        env.holds('returns only with exactly the requested number of groups', len(comp) == ng,
                  key='group_count_not_requested')


# ------------------------------------------------------------------ distribution
class _Cool:
    def __init__(self, cp):
        self.heat_capacity = cp

    def update(self, T):
        pass


PARTITIONS = {
    # labels per assembly (sorted by power), assembly type per assembly
    'a': ([0, 1], [0, 0]),
    'b': ([0, 0, 1], [0, 1, 0]),
    'c': ([0, 1, 1, 2], [0, 0, 1, 0]),
    'd': ([0, 0, 1, 2, 2], [1, 0, 0, 0, 1]),
    'e': ([0, 1, 2, 3], [0, 1, 1, 0]),
}


def _dist_self(env, labels, types, with_lim):
    N = len(labels)
    ng = max(labels) + 1
    gd = np.zeros((N, 3))
    gd[:, 0] = np.arange(N)
    gd[:, 2] = labels
    ids = np.zeros((N, 2), dtype=int)
    ids[:, 0] = np.arange(N)
    ids[:, 1] = types
    t_in = env.real('t_in', lo=200, hi=1000)
    calls = []

    def est(m, xy, res_prev=None, ratio=None):
        k = len(calls)
        calls.append(1)
        out = np.empty(N, dtype=object)
        for i in range(N):
            out[i] = env.real('optvar_call%d_asm%d' % (k, i), lo=200, hi=5000)
        return out.astype(float) if env.mode == 'replay' else out
    s = StubSelf(orifice_input={'n_groups': ng, 'pressure_drop_limit': None, 'bulk_coolant_temp': None},
                 group_data=gd, _parametric={'asm_ids': ids, 'data': []}, t_in=t_in,
                 _dp_limit=np.zeros(ng), _estimate_optvar=est)
    return s, N, ng


def body_dist_step(env):
    """One iteration of the fixed-point loop of distribute() from an arbitrary state."""
    labels, types = PARTITIONS[env.params['part']]
    with_lim = env.params['lim']
    with env.patch(MODS):
        s, N, ng = _dist_self(env, labels, types, with_lim)
        m_total = env.pos('m_total', hi=1e5)
        mg = [env.pos('m_group%d' % g, hi=1e5) for g in range(ng)]     # members of a group share one flow
        m = np.empty(N, dtype=object)
        for i in range(N):
            m[i] = mg[labels[i]]
        d_optvar = np.empty(ng, dtype=object)
        for g in range(ng):
            d_optvar[g] = env.pos('d_optvar%d' % g, hi=100)
        m_lim = None
        if with_lim:
            nt = max(types) + 1
            m_lim = np.empty(nt, dtype=object)
            for t in range(nt):
                m_lim[t] = env.pos('m_lim_type%d' % t, hi=1e5)
        if env.mode == 'replay':
            m = m.astype(float)
            d_optvar = d_optvar.astype(float)
            m_lim = None if m_lim is None else m_lim.astype(float)
        body, _test = loops.while_body(om.Orificing.distribute, 0)
        L = body({'self': s, 'm': m, 'm_total': m_total, 'm_lim': m_lim, 'd_optvar': d_optvar,
                  'xy': [], 'res_prev': None, 'ratio': 1.0, 'iter': 0, 'tol': 1.0, 'convergence': 2.0})
        m2 = L['m']
        tot = m2[0]
        for i in range(1, N):
            tot = tot + m2[i]
        env.eq('flows sum to the total flow', tot, m_total)
        for i in range(N):
            for j in range(i + 1, N):
                if labels[i] == labels[j]:
                    env.eq('members %d,%d of group %d share one flow' % (i, j, labels[i]), m2[i], m2[j])
        if with_lim:
            for i in range(N):
                if labels[i] < ng - 1:
                    env.le('flow of asm %d (group %d) within the pressure-drop limit' % (i, labels[i]),
                           m2[i], m_lim[types[i]])


def body_dist_epilogue(env):
    """Code after the loop: conservation check, limit flags, group-count check."""
    labels, types = PARTITIONS[env.params['part']]
    with_lim = env.params['lim']
    with env.patch(MODS):
        s, N, ng = _dist_self(env, labels, types, with_lim)
        m_total = env.pos('m_total', hi=1e5)
        m = np.empty(N, dtype=object)
        for i in range(N):
            m[i] = env.real('m%d' % i, lo=-1e5, hi=1e5)
        gmax = np.empty(ng, dtype=object)
        for g in range(ng):
            gmax[g] = env.real('group_max%d' % g, lo=200, hi=5000)
        m_lim = None
        if with_lim:
            nt = max(types) + 1
            m_lim = np.empty(nt, dtype=object)
            for t in range(nt):
                m_lim[t] = env.pos('m_lim_type%d' % t, hi=1e5)
            # state after the loop: groups 0..n-2 respect the limit (proved by dist-step)
            for i in range(N):
                if labels[i] < ng - 1:
                    env.assume(m[i] <= m_lim[types[i]])
            # which groups were capped is arbitrary
            for g in range(ng - 1):
                s._dp_limit[g] = env.params.get('capped', 0) if g == 0 else 0
        if env.mode == 'replay':
            m = m.astype(float)
            gmax = gmax.astype(float)
            m_lim = None if m_lim is None else m_lim.astype(float)
        after = loops.after_loop(om.Orificing.distribute, 0)
        try:
            L = after({'self': s, 'm': m, 'm_total': m_total, 'm_lim': m_lim, 'group_max': gmax})
        except SystemExit:
            env.holds('stops with an error message', any(l == 'error' for l, _ in s._log))
            env.stop()
        mret, _opt = L['__return']
        tot = mret[0]
        for i in range(1, N):
            tot = tot + mret[i]
        env.le('returned flows sum to the total flow (code tolerance 1e-6 kg/s), hi', tot - m_total, 1e-6)
        env.ge('returned flows sum to the total flow (code tolerance 1e-6 kg/s), lo', tot - m_total, -1e-6)
        if with_lim:
            for i in range(N):
                env.le('returned flow of asm %d within the pressure-drop limit' % i, mret[i], m_lim[types[i]],
                       key='last_group_exceeds_dp_limit' if labels[i] == ng - 1 else None)


def body_dist_prologue(env):
    """Code before the loop (first iteration, no previous sweep): total flow from Q = m cp dT."""
    labels, types = PARTITIONS[env.params['part']]
    with env.patch(MODS):
        s, N, ng = _dist_self(env, labels, types, False)
        cp = env.pos('cp', hi=1e5)
        s.coolant = _Cool(cp)
        tb = env.real('bulk_coolant_temp', lo=200, hi=5000)
        env.assume(tb - s.t_in >= 1)
        s.orifice_input['bulk_coolant_temp'] = tb
        P = np.empty((N, 2), dtype=object)
        for i in range(N):
            P[i, 0] = float(i)
            P[i, 1] = env.pos('power%d' % i, hi=1e9)
        if env.mode == 'replay':
            P = P.astype(float)
        s._power = P
        nt = max(types) + 1
        data = []
        for t in range(nt):
            d = np.array([[1.0e-6 * (k + 1), 0.0, 1.0 * (k + 1), 0.01 * (k + 1), 700.0 + 10 * k] for k in range(4)])[::-1]
            data.append(d.copy())
        s._parametric['data'] = data
        pre = loops.before_loop(om.Orificing.distribute, 0)
        L = pre({'self': s, 'res_prev': None, 't_out_prev': None})
        m_total = L['m_total']
        tot_p = P[0, 1]
        for i in range(1, N):
            tot_p = tot_p + P[i, 1]
        env.eq('total flow satisfies Q = m cp (T_bulk - T_in)', m_total * cp * (tb - s.t_in), tot_p)
        m = L['m']
        tot = m[0]
        for i in range(1, N):
            tot = tot + m[i]
        env.eq('first guess sums to the total flow', tot, m_total)


def body_dist_prologue_prev(env):
    """Code before the loop in a later iteration of the optimiser: the previous sweep's results (one block of rows per
    time step, every block listing every assembly with its flow) give the total flow; rescaled by the ratio of the
    achieved to the requested bulk temperature rise.  The corrective ratio is an arbitrary positive stub."""
    labels, types = PARTITIONS[env.params['part']]
    T = env.params['timesteps']
    with env.patch(MODS):
        s, N, ng = _dist_self(env, labels, types, False)
        s.coolant = _Cool(1000.0)
        tb = env.real('bulk_coolant_temp', lo=200, hi=5000)
        env.assume(tb - s.t_in >= 1)
        s.orifice_input['bulk_coolant_temp'] = tb
        tp = env.real('previous_bulk_outlet_temp', lo=200, hi=5000)
        env.assume(tp - s.t_in >= 1)
        flows = [env.pos('flow_prev%d' % i, hi=1e4) for i in range(N)]
        R = np.empty((T * N, 6), dtype=object)
        for t in range(T):
            for i in range(N):
                R[t * N + i] = [float(t), float(i), 0.0, flows[i], 0.0, 800.0 + i]
        if env.mode == 'replay':
            R = R.astype(float)
        P = np.zeros((N, 2))
        P[:, 0] = np.arange(N)
        P[:, 1] = 1.0e6
        s._power = P
        nt = max(types) + 1
        s._parametric['data'] = [np.array([[1.0e-6 * (k + 1), 0.0, 1.0 * (k + 1), 0.01 * (k + 1), 700.0 + 10 * k] for k in range(4)])[::-1].copy()
                                 for t in range(nt)]
        s._calc_corrective_ratio = lambda xy, res_prev: np.ones(N)
        env.stub('Orificing._calc_corrective_ratio returns ones (the total flow does not depend on it)')
        pre = loops.before_loop(om.Orificing.distribute, 0)
        L = pre({'self': s, 'res_prev': R, 't_out_prev': tp})
        tot = flows[0]
        for i in range(1, N):
            tot = tot + flows[i]
        env.eq('total flow = previous total flow (one time step) rescaled by the bulk temperature rises', L['m_total'] * (tb - s.t_in),
               tot * (tp - s.t_in), tol=1e-9, key='total_flow_wrong_with_previous_sweep')


def body_dist_run(env):
    """The whole real distribute() (first iteration of the optimiser: no previous sweep),
    response estimator stubbed with arbitrary values; bounded by the fork-depth budget."""
    labels, types = PARTITIONS[env.params['part']]
    with_lim = env.params['lim']
    with env.patch(MODS):
        s, N, ng = _dist_self(env, labels, types, with_lim)
        # uniform response: every assembly is estimated at the same value, at which the
        # fixed-point loop converges after its first flow update (bounded scenario)
        s._estimate_optvar = lambda m, xy, res_prev=None, ratio=None: np.full(N, 800.0)
        s.t_in = 600.0
        # total flow: Q = m cp dT is proved by dist-prologue; here the total is one variable
        m_total_v = env.pos('m_total', hi=1e5)
        cp = 1.0
        tb = 601.0
        s.coolant = _Cool(cp)
        s.orifice_input['bulk_coolant_temp'] = tb
        P = np.zeros((N, 2))
        P[:, 0] = np.arange(N)
        s._power = P
        tot_p = m_total_v
        nt = max(types) + 1
        # parametric response data per assembly type: columns power/flow, -, flow rate, dp (Pa), optvar
        data = []
        for t in range(nt):
            d = np.array([[1.0e-6 * (k + 1), 0.0, 2.0 * (k + 1) + t, 1.0e4 * (k + 1), 700.0 + 10 * k] for k in range(4)])[::-1]
            data.append(d.copy())
        s._parametric['data'] = data
        m_lim = None
        if with_lim:
            s.orifice_input['pressure_drop_limit'] = 0.025       # MPa -> flow limit 5 + t kg/s per assembly
            m_lim = [float(np.interp(0.025e6, d[:, 3][::-1], d[:, 2][::-1])) for d in data]
        try:
            with env.patch([], extra={(om.dassh, 'Q_equals_mCdT'): lambda *a, **k: m_total_v}):
                m, _opt = om.Orificing.distribute(s)
        except SystemExit:
            env.holds('stops with an error message', any(l == 'error' for l, _ in s._log))
            env.stop()
        tot = m[0]
        for i in range(1, N):
            tot = tot + m[i]
        env.le('distributed flows satisfy Q = m cp dT (code tolerance 1e-6 kg/s), hi', tot * cp * (tb - s.t_in) - tot_p, 1e-6 * cp * (tb - s.t_in))
        env.ge('distributed flows satisfy Q = m cp dT (code tolerance 1e-6 kg/s), lo', tot * cp * (tb - s.t_in) - tot_p, -1e-6 * cp * (tb - s.t_in))
        for i in range(N):
            for j in range(i + 1, N):
                if labels[i] == labels[j]:
                    env.eq('members %d,%d of group %d share one flow' % (i, j, labels[i]), m[i], m[j])
        if with_lim:
            for i in range(N):
                env.le('flow of asm %d (group %d) within the pressure-drop limit' % (i, labels[i]), m[i], m_lim[types[i]],
                       key='last_group_exceeds_dp_limit' if labels[i] == ng - 1 else None)


def body_parametric_ids(env):
    """Orificing.run_parametric (set-up glue; recycled-table path, reactor file replaced by a stub): the table that ties every
    grouped assembly to the parametric data of its own type lists every assembly once, ordered by id, with the index of *its*
    type -- distribute() and the response estimator pick pressure-drop limits and response curves through it.  Concrete
    enumeration of loadings (types interleaved in the core, listing order opposite to core order); no symbolic dimension."""
    import os
    import shutil
    import tempfile
    names_in_core = env.params['core']            # type name per assembly id
    to_group = env.params['to_group']
    d = tempfile.mkdtemp(prefix='dassh-verif-c20.')
    try:
        os.makedirs(os.path.join(d, '_parametric'))
        for nm in to_group:
            np.savetxt(os.path.join(d, '_parametric', 'data_%s.csv' % nm), np.ones((3, 5)), delimiter=',')

        class _Pow:
            pin_power = np.ones((1, 2, 1))
            duct_power = None
            coolant_power = None
            avg_power = np.ones(1)

            def calculate_total_power(self):
                return 1.0
        asms = [StubSelf(name=nm, id=i, loc=(0, 0), power=_Pow(), total_power=1.0) for i, nm in enumerate(names_in_core)]
        rx = StubSelf(assemblies=asms)
        s_ = StubSelf(_bind=(om.Orificing, ['run_parametric']), _base_input=StubSelf(path=d), _recycle=True,
                      orifice_input={'assemblies_to_group': list(to_group)}, _VARPOW_FILES=[])
        old = om.dassh.reactor.load
        om.dassh.reactor.load = lambda path: rx
        try:
            s_.run_parametric()
        finally:
            om.dassh.reactor.load = old
    finally:
        shutil.rmtree(d, ignore_errors=True)
    tab = np.asarray(s_._parametric['asm_ids'])
    want = [[i, to_group.index(nm)] for i, nm in enumerate(names_in_core) if nm in to_group]
    env.holds('every grouped assembly is listed once, ordered by id', [int(x) for x in tab[:, 0]] == [w[0] for w in want],
              key='parametric_table_mismatch')
    env.holds('every listed assembly carries the index of its own type', [[int(x), int(y)] for x, y in tab] == want, key='parametric_table_mismatch')
    env.holds('one parametric data table per grouped type', len(s_._parametric['data']) == len(to_group))


def body_input_orifice(env):
    """Orificing._setup_input_orifice (glue between distribute() and the next sweep): the flow rate computed for row i of the
    group table reaches the assembly whose id that row carries (rows are ordered by the grouping parameter, not by id, and
    ungrouped / empty positions lie in between), so that all members of a group really run with the group's flow; ungrouped
    assemblies get the flow that meets the outlet-temperature target for their own power; every other position is left on
    the outlet-temperature condition."""
    ids = list(env.params['ids'])          # assembly id per row of group_data
    ng = list(env.params.get('ng', ()))    # ungrouped assemblies
    empty = set(env.params.get('empty', ()))
    npos = env.params['npos']
    with env.patch(MODS):
        m = [env.pos('m_row%d' % i, hi=1e4) for i in range(len(ids))]
        t_out, t_in = 773.15, 623.15
        cp = env.pos('heat_capacity', hi=1e5)

        class _Cool:
            heat_capacity = cp
            temperature = t_in

            def update(self, T):
                self.temperature = T
        by = [([] if p in empty else ['type%d' % (p % 2), [0, p], {'outlet_temp': t_out}]) for p in range(npos)]
        inp = StubSelf(data={'Assignment': {'ByPosition': by}, 'Core': {'coolant_material': 'na', 'coolant_inlet_temp': t_in}},
                       materials={'na': _Cool()}, path='somewhere')
        gd = np.zeros((len(ids), 4))
        gd[:, 0] = ids
        s_ = StubSelf(_bind=(om.Orificing, ['_setup_input_orifice']), group_data=gd, _setup_input_perfect=lambda: inp,
                      orifice_input={'bulk_coolant_temp': t_out})
        pw = []
        if ng:
            ngp = np.empty((len(ng), 2), dtype=object)
            for k, a in enumerate(ng):
                ngp[k, 0] = float(a)
                pw.append(env.pos('power_ungrouped%d' % k, hi=1e8))
                ngp[k, 1] = pw[-1]
            if env.mode == 'replay':
                ngp = ngp.astype(float)
            s_._ng_power = ngp
        out = s_._setup_input_orifice(m)
        got = out.data['Assignment']['ByPosition']
        env.holds('one entry per core position', len(got) == npos)
        for i, a in enumerate(ids):
            bc = got[a][2] if got[a] else {}
            env.holds('assembly %d (row %d of the group table) runs on a flow-rate condition' % (a, i), list(bc.keys()) == ['flowrate'],
                      key='group_flow_given_to_another_assembly')
            env.eq('assembly %d (row %d of the group table) gets the flow rate of its own row' % (a, i), bc.get('flowrate', 0.0), m[i],
                   key='group_flow_given_to_another_assembly')
        for k, a in enumerate(ng):
            bc = got[a][2] if got[a] else {}
            env.eq('ungrouped assembly %d gets the flow that meets the outlet temperature target for its own power' % a,
                   bc.get('flowrate', 0.0) * cp * (t_out - t_in), pw[k], tol=1e-9, key='group_flow_given_to_another_assembly')
        for p in range(npos):
            if p in empty:
                env.holds('empty position %d stays empty' % p, got[p] == [])
            elif p not in ids and p not in ng:
                env.holds('assembly %d (neither grouped nor listed as ungrouped) keeps the outlet-temperature condition' % p,
                          list(got[p][2].keys()) == ['outlet_temp'], key='group_flow_given_to_another_assembly')


def body_summary(env):
    """Orificing._summarize_group_data (glue between a finished sweep and the next distribute()): the core-wide bulk outlet
    temperature it hands on -- distribute() scales the total flow with it -- is the flow-weighted mean over *all* assemblies
    and *all* time points of the results table; group rows average the time points.  Flow rates and outlet temperatures are
    symbolic; maxima fork."""
    groups = list(env.params['groups'])     # group id per assembly (row order of group_data)
    T = env.params['timepoints']
    N = len(groups)
    with env.patch(MODS):
        res = np.empty((N * T, 6), dtype=object)
        m, to = {}, {}
        for t in range(T):
            for a in range(N):
                k = t * N + a
                m[k] = env.pos('flow_t%d_a%d' % (t, a), hi=1e3)
                to[k] = env.real('T_out_t%d_a%d' % (t, a), lo=300, hi=2000)
                res[k] = [float(t), float(a), 1.0, m[k], to[k], to[k]]
        if env.mode == 'replay':
            res = res.astype(float)
        gd = np.zeros((N, 3))
        gd[:, 0] = range(N)
        gd[:, 2] = groups
        s_ = StubSelf(_bind=(om.Orificing, ['_summarize_group_data']), group_data=gd, _opt_col=5)
        out = s_._summarize_group_data(res)
        tot_m = sum(m.values())
        env.eq('core-wide bulk outlet temperature = flow-weighted mean over every assembly and every time point',
               out[-1, 0] * tot_m, sum(m[k] * to[k] for k in m), tol=1e-9, key='summary_not_over_all_time_points')
        for k in m:
            env.ge('core-wide peak >= outlet temperature of time point %d assembly %d' % (k // N, k % N), out[-1, 1], to[k],
                   key='summary_not_over_all_time_points')
        for g in sorted(set(groups)):
            mem = [a for a in range(N) if groups[a] == g]
            want = sum(sum(to[t * N + a] for a in mem) / len(mem) for t in range(T)) / T
            env.eq('group %d: bulk outlet temperature averaged over its members and the time points' % g, out[g, 0], want, tol=1e-9,
                   key='summary_not_over_all_time_points')


def body_power_collection(env):
    """Orificing._get_power (set-up glue of the grouping; Reactor replaced by a recording factory whose assemblies carry
    symbolic powers per time point): one Reactor per time point, each asked for *its* time point; the grouping parameter and the
    power of ungrouped assemblies are the averages over all time points of each assembly's own values."""
    T, names = env.params['timepoints'], env.params['names']
    grouped = env.params['grouped']
    with env.patch(MODS):
        P = {(t, a): env.pos('power_t%d_a%d' % (t, a), hi=1e8) for t in range(T) for a in range(len(names))}
        Lp = {(t, a): env.pos('linpower_t%d_a%d' % (t, a), hi=1e6) for t in range(T) for a in range(len(names))}
        asked = []

        def factory(inp_, **kw):
            t = kw.get('timestep', 0)
            asked.append(t)
            asms = [StubSelf(name=nm, id=a, total_power=P[(t, a)],
                             power=StubSelf(calculate_avg_peak_linear_power=(lambda t=t, a=a: Lp[(t, a)]))) for a, nm in enumerate(names)]
            return StubSelf(assemblies=asms, save=lambda *a_, **k_: None)
        s_ = StubSelf(_bind=(om.Orificing, ['_get_power']), _base_input=StubSelf(path='/nonexistent', timepoints=T), _recycle=False,
                      orifice_input={'assemblies_to_group': list(grouped)})
        with env.patch([], extra={(om.dassh, 'Reactor'): factory}):
            s_._get_power(group_by=env.params['group_by'])
        env.holds('one Reactor per time point, each asked for its own time point', asked == list(range(T)), key='power_of_another_time_point')
        gi = [a for a, nm in enumerate(names) if nm in grouped]
        ni = [a for a, nm in enumerate(names) if nm not in grouped]
        env.holds('every grouped assembly listed once, in order', [int(x) for x in s_._power[:, 0]] == gi)
        for row, a in enumerate(gi):
            env.eq('assembly %d: power used for grouping = average over the time points' % a, s_._power[row, 1] * T, sum(P[(t, a)] for t in range(T)),
                   tol=1e-9, key='power_of_another_time_point')
            env.eq('assembly %d: linear power used for grouping = average over the time points' % a, s_._lin_power[row, 1] * T,
                   sum(Lp[(t, a)] for t in range(T)), tol=1e-9, key='power_of_another_time_point')
            want = s_._lin_power if env.params['group_by'] == 'linear_power' else s_._power
            env.eq('assembly %d: grouping parameter is the requested one' % a, s_._power_to_grp[row, 1], want[row, 1])
        for row, a in enumerate(ni):
            env.eq('ungrouped assembly %d: power = average over the time points' % a, s_._ng_power[row, 1] * T, sum(P[(t, a)] for t in range(T)),
                   tol=1e-9, key='power_of_another_time_point')


def instances(tier):
    inst = []
    combos = [(2, 1), (2, 2), (3, 2), (3, 3)] if tier == 'quick' else [(2, 1), (2, 2), (3, 1), (3, 2), (3, 3), (4, 2), (4, 3)]
    for N, ng in combos:
        inst.append(dict(label='group-run[N=%d,n_groups=%d]' % (N, ng), body=body_group,
                         params={'N': N, 'n_groups': ng}, max_paths=100000,
                         max_depth=(10 if N <= 3 else 9) if tier == 'quick' else (14 if N <= 3 else 12)))
    Ns = (2, 3, 4) if tier == 'quick' else (2, 3, 4, 5, 6)
    for N in Ns:
        for ng in range(1, N + 1):
            inst.append(dict(label='group-iter[N=%d,n_groups=%d]' % (N, ng), body=body_group_iter,
                             params={'N': N, 'n_groups': ng}, max_paths=20000, max_depth=80))
            for k in range(1, N + 1):
                for comp in _compositions(N, k):
                    for it in (1, 999, 1000):
                        inst.append(dict(label='group-exit[N=%d,n_groups=%d,groups=%s,iter=%d]' % (
                            N, ng, '+'.join(map(str, comp)), it), body=body_group_exit,
                            params={'N': N, 'n_groups': ng, 'comp': comp, 'iter': it}, check_vacuity=False))
    parts = 'abc' if tier == 'quick' else 'abcde'
    for p in parts:
        for lim in (False, True):
            inst.append(dict(label='dist-step[part=%s,limit=%s]' % (p, lim), body=body_dist_step,
                             params={'part': p, 'lim': lim}, max_paths=4000, max_depth=80))
            for capped in ((0,) if not lim else (0, 1)):
                inst.append(dict(label='dist-epilogue[part=%s,limit=%s,capped=%d]' % (p, lim, capped),
                                 body=body_dist_epilogue, params={'part': p, 'lim': lim, 'capped': capped},
                                 max_paths=4000, max_depth=80))
        inst.append(dict(label='dist-prologue[part=%s]' % p, body=body_dist_prologue, params={'part': p}))
        for T in (1, 2, 3):
            inst.append(dict(label='dist-prologue-previous-sweep[part=%s,timesteps=%d]' % (p, T), body=body_dist_prologue_prev,
                             params={'part': p, 'timesteps': T}))
        for lim in (False, True):
            inst.append(dict(label='dist-run[part=%s,limit=%s]' % (p, lim), body=body_dist_run,
                             params={'part': p, 'lim': lim}, max_paths=100000, max_depth=14 if tier == 'quick' else 20))
    for k, (core_, grp) in enumerate(((['inner', 'outer', 'inner', 'outer', 'refl', 'outer', 'inner'], ['inner', 'outer']),
                                      (['inner', 'outer', 'outer', 'inner', 'outer', 'outer', 'inner'], ['outer', 'inner']),
                                      (['a', 'b', 'c', 'c', 'b', 'a', 'b'], ['c', 'a', 'b']), (['a'] * 5, ['a']))):
        inst.append(dict(label='parametric-ids[loading %d]' % k, body=body_parametric_ids, params={'core': core_, 'to_group': grp}, check_vacuity=False))
    for k, (ids, ng_, empty, npos) in enumerate((((4, 1, 6, 2), (), (), 7), ((5, 2, 3), (0, 6), (1,), 7), ((0, 1, 2), (), (), 3),
                                                 ((6, 3), (4, 1), (0, 2), 8), ((2, 0, 1, 5, 4, 3), (), (), 6))):
        inst.append(dict(label='orifice-input[rows=%s,ungrouped=%s,empty=%s]' % ('-'.join(map(str, ids)), '-'.join(map(str, ng_)) or 'none',
                                                                                 '-'.join(map(str, empty)) or 'none'),
                         body=body_input_orifice, params={'ids': ids, 'ng': ng_, 'empty': empty, 'npos': npos}))
    for T, names, grouped, gb in ((1, ('f', 'f', 'b'), ('f',), 'power'), (2, ('f', 'b', 'f'), ('f',), 'linear_power'), (3, ('f', 'f'), ('f',), 'power'),
                                  (2, ('f', 'b', 'c', 'f'), ('f', 'c'), 'power')):
        inst.append(dict(label='power-collection[time points=%d,assemblies=%s,grouped=%s,by %s]' % (T, '-'.join(names), '+'.join(grouped), gb),
                         body=body_power_collection, params={'timepoints': T, 'names': names, 'grouped': grouped, 'group_by': gb}))
    for groups, T in (((0, 1), 1), ((0, 1), 2), ((0, 1, 1), 2)) + (() if tier == 'quick' else (((0, 0, 1), 3),)):
        inst.append(dict(label='sweep-summary[groups=%s,time points=%d]' % ('-'.join(map(str, groups)), T), body=body_summary,
                         params={'groups': groups, 'timepoints': T}, max_paths=20000, max_depth=200))
    return inst


def main():
    a = runner.main_args()
    inst = runner.select(instances(a.tier), a.only)
    runner.run_check(
        'C20', inst, a.tier,
        explanation=('Orificing._group is executed symbolically as a whole (powers, cut-off and its increment are solver '
                     'variables; sort comparisons, min/max and the cut-off test fork) under a fork-depth budget; the '
                     'prologue, one loop iteration from an arbitrary state and the epilogue of Orificing.distribute are '
                     'lifted from the current source and executed symbolically with the response estimator as an '
                     'arbitrary-valued stub.  Partition/ordering/count and flow conservation/limit claims are SMT queries.'),
        bounds={'assemblies grouped': '2..4 (quick) / 2..6', 'groups requested': '1..3 (quick) / 1..4',
                'fork depth budget for _group': '40 (quick) / 60 decisions per path; deeper cut-off searches are cut',
                'distribute': 'partitions a-c (quick) / a-e of 2..5 assemblies into 2..4 groups, 1-2 assembly types'},
        outside=['cut-off searches needing more decisions than the budget (reported as cut paths)', 'regroup()',
                 'parametric DASSH sweeps, result files', 'the response estimator (_estimate_optvar, np.interp): arbitrary values'],
        level_assumptions=['powers, cut-off, cut-off increment > 0', 'distribute: flows of one group are equal on entry of an iteration (initialised equal; preserved by the iteration, which is itself claimed)'])


if __name__ == '__main__':
    main()
