"""C15 -- reported peak temperatures are the maxima over the whole sweep.

Real code executed symbolically (dassh/assembly.py): Assembly._update_peak_coolant_temps,
_update_peak_duct_temps, _update_peak_pin_temps (one and two fold steps from an arbitrary
previous peak and arbitrary new fields; np.max / np.argmax fork on the orderings).  Induction
over the step history gives "maximum over the sweep, at the height of first attainment".
"""
import numpy as np

from symx import runner, core
from harness.common import StubSelf

import dassh.assembly as am

MODS = [am]
METHODS = ['_update_peak_coolant_temps', '_update_peak_duct_temps', '_update_peak_pin_temps']


def _field(env, name, shape, lo=0, hi=5000):
    a = np.empty(shape, dtype=object)
    for idx in np.ndindex(shape):
        a[idx] = env.real(name + '_'.join(map(str, idx)), lo=lo, hi=hi)
    return a.astype(float) if env.mode == 'replay' else a


def _max(env, vals):
    """reference maximum (no fork): a value >= all that equals one of them."""
    m = vals[0]
    for v in vals[1:]:
        m = core.sym_max(m, v)
    return m


def body_coolant(env):
    n, steps = env.params['n'], env.params['steps']
    with env.patch(MODS):
        old = env.real('old_peak', lo=0, lo_strict=False, hi=5000)
        oldz = env.real('old_z', lo=0, lo_strict=False, hi=20)
        s = StubSelf(_bind=(am.Assembly, METHODS), _peak={'cool': (old, oldz)})
        zs, fields = [], []
        zprev = oldz
        for k in range(steps):
            z = env.real('z%d' % k, lo=0, hi=20)
            env.assume(z > zprev)
            zprev = z
            f = _field(env, 'T%d_' % k, (n,))
            s.z = z
            s.temp_coolant = f
            s._update_peak_coolant_temps()
            zs.append(z)
            fields.append(f)
        allv = [old] + [v for f in fields for v in f]
        env.eq('peak coolant = max(previous peak, all cells of all new planes)', s._peak['cool'][0], _max(env, allv))
        # height of first attainment
        val, hz = s._peak['cool']
        conds = []
        # candidate heights in sweep order
        cands = [(old, oldz)] + [(_max(env, list(f)), z) for f, z in zip(fields, zs)]
        for i, (m, z) in enumerate(cands):
            is_max = env.land(*[m >= cands[j][0] for j in range(len(cands))])
            conds.append(env.land(is_max, hz == z))
        env.holds('stored height is a height at which the maximum is attained', env.lor(*conds))


def body_duct(env):
    n, nd_reg, nd_asm, steps = env.params['n'], env.params['nd_reg'], env.params['nd_asm'], env.params['steps']
    with env.patch(MODS):
        olds = [(env.real('old_peak%d' % i, lo=0, lo_strict=False, hi=5000), env.real('old_z%d' % i, lo=0, lo_strict=False, hi=20))
                for i in range(nd_asm)]
        s = StubSelf(_bind=(am.Assembly, METHODS), _peak={'duct': list(olds)})
        fields, zs = [], []
        zprev = 0.0
        for k in range(steps):
            z = env.real('z%d' % k, lo=0, hi=20)
            env.assume(z > zprev)
            for (_v, oz) in olds:
                env.assume(z > oz)
            zprev = z
            f = _field(env, 'Tmw%d_' % k, (nd_reg, n))
            s.z = z
            s.temp_duct_mw = f
            s._update_peak_duct_temps()
            fields.append(f)
            zs.append(z)
        # ducts of the active region are the outermost nd_reg ducts of the assembly
        for i in range(nd_asm):
            j = i - (nd_asm - nd_reg)
            if j < 0:
                env.eq('duct %d not in this region: peak untouched' % i, s._peak['duct'][i][0], olds[i][0])
                env.eq('duct %d not in this region: height untouched' % i, s._peak['duct'][i][1], olds[i][1])
                continue
            allv = [olds[i][0]] + [v for f in fields for v in f[j]]
            env.eq('peak of duct %d = max(previous, all cells of that duct)' % i, s._peak['duct'][i][0], _max(env, allv))
            cands = [(olds[i][0], olds[i][1])] + [(_max(env, list(f[j])), z) for f, z in zip(fields, zs)]
            hz = s._peak['duct'][i][1]
            conds = []
            for c, (m, z) in enumerate(cands):
                is_max = env.land(*[m >= cands[q][0] for q in range(len(cands))])
                conds.append(env.land(is_max, hz == z))
            env.holds('duct %d: stored height is a height at which the maximum is attained' % i, env.lor(*conds))


KEYS = ['clad_od', 'clad_mw', 'clad_id', 'fuel_od', 'fuel_cl']


def body_pin(env):
    npin, steps = env.params['npin'], env.params['steps']
    focus = env.params['focus']        # the location whose column is symbolic (the columns are folded independently)
    fcol = KEYS.index(focus) + 4
    with env.patch(MODS):
        peak = {}
        oldrows = {}
        for i, k in enumerate(KEYS):
            old = env.real('old_' + k, lo=0, lo_strict=False, hi=5000) if k == focus else 350.5
            row = [0.0, 0.0, 0.0] + [env.real('oldrow_%s_%d' % (k, c), lo=0, hi=5000) if k == focus else 100.0 + c
                                     for c in range(3, 9)]
            peak[k] = [old, i + 4, list(row)]
            oldrows[k] = (old, list(row))
        s = StubSelf(_bind=(am.Assembly, METHODS), _peak={'pin': peak})
        arrays = []
        for st in range(steps):
            z = env.real('z%d' % st, lo=0, hi=20)
            t = np.empty((npin, 9), dtype=object)
            for p_ in range(npin):
                t[p_, 0] = 0.0
                t[p_, 1] = z
                t[p_, 2] = float(p_)
                for c in range(3, 9):
                    t[p_, c] = env.real('t%d_%d_%d' % (st, p_, c), lo=0, hi=5000) if c in (3, fcol) else 300.0 + 7 * p_ + 11 * st + c
            if env.mode == 'replay':
                t = t.astype(float)
            s.pin_temp_array = t
            s._update_peak_pin_temps()
            arrays.append(t)
        for i, k in enumerate(KEYS):
            col = i + 4
            old, oldrow = oldrows[k]
            allv = [old] + [t[p_, col] for t in arrays for p_ in range(npin)]
            env.eq('peak %s = max(previous, all pins of all new planes)' % k, s._peak['pin'][k][0], _max(env, allv))
            # the stored radial profile is the row of the pin/plane of first attainment
            cands = [(old, oldrow)] + [(t[p_, col], list(t[p_])) for t in arrays for p_ in range(npin)]
            prof = s._peak['pin'][k][2]
            conds = []
            for c, (m, row) in enumerate(cands):
                is_max = env.land(*[m >= cands[q][0] for q in range(len(cands))])
                same = env.land(len(prof) == len(row), *[prof[q] == row[q] for q in range(min(len(prof), len(row)))])
                conds.append(env.land(is_max, same))
            env.holds('%s: stored radial profile is that of a pin and plane where the maximum is attained' % k, env.lor(*conds))


def body_store(env):
    """Through the public path (generated input -> Reactor -> a few real steps): the assembly keeps one peak slot per duct of
    its pin bundle whatever the order of its axial regions, and after the steps every slot holds the maximum of the mid-wall
    field of its own duct over the planes swept (unrodded planes count for the outer duct).  Concrete check of the set-up
    glue (Assembly.__init__) and of the update on a real assembly; no symbolic dimension."""
    import os
    import shutil
    import tempfile
    from symx import geninp, npshim
    import dassh
    ftf, axial = env.params['ftf'], env.params['axial']
    d = tempfile.mkdtemp(prefix='dassh-verif-c15.')
    try:
        a = geninp.default_asm(2, ftf=ftf, axial=axial or None, P=0.0062, D=0.0050, Dw=0.0008,
                               extra=['bypass_gap_flow_fraction = 0.05'] if len(ftf) > 2 else [])
        inp = geninp.write_case(d, {'a': a}, [('a', 1, 1, 'FLOWRATE=0.4')], gap_model='none', core_len=0.06)
        with npshim.unpatched():
            r = dassh.Reactor(dassh.DASSH_Input(inp), path=os.path.join(d, 'out'), write_output=False, axial_mesh_size=0.005)
            asm = r.assemblies[0]
            nduct = len(ftf) // 2
            env.holds('one peak slot per duct of the pin bundle', len(asm._peak['duct']) == nduct, key='wrong_number_of_duct_peak_slots')
            seen = [-1.0] * nduct
            real_update = asm._update_peak_duct_temps

            def spy():
                # the field the real update looks at (the region active during this step, before any region change)
                mw = np.asarray(asm.active_region.temp['duct_mw'], dtype=float)
                for k in range(mw.shape[0]):
                    slot = nduct - mw.shape[0] + k
                    seen[slot] = max(seen[slot], float(np.max(mw[k])))
                return real_update()
            asm._update_peak_duct_temps = spy
            r._data_setup()
            r._data_open()
            r.axial_step0()
            for i in range(1, len(r.z)):
                r.axial_step(r.z[i], r.dz[i - 1], i, False)
            try:
                r._data_close()
            except (AttributeError, KeyError):
                pass
    finally:
        shutil.rmtree(d, ignore_errors=True)
    if len(asm._peak['duct']) == nduct:
        for k in range(nduct):
            env.holds('duct %d: reported peak = maximum of its mid-wall field over the planes swept' % k,
                      abs(float(asm._peak['duct'][k][0]) - seen[k]) <= 1e-9 * abs(seen[k]), key='duct_peak_not_the_maximum')


def body_summary(env):
    """Summary tables of dassh.out through the public path (generated input -> Reactor -> real sweep -> CoolantTempTable /
    DuctTempTable): the bulk outlet temperature printed for an assembly is the flow-weighted mean of its final-plane coolant
    field (interior and flowing bypass), the peak outlet the maximum of the final-plane interior field, the peak total and its
    height the running maximum recorded independently during the sweep; duct rows carry the face averages of the final-plane
    mid-wall field.  Numbers are read back from the printed table (two decimals).  Concrete; no symbolic dimension."""
    import os
    import shutil
    import tempfile
    from symx import geninp, npshim
    import dassh
    import dassh.table as T
    ftf, axial = env.params['ftf'], env.params['axial']
    d = tempfile.mkdtemp(prefix='dassh-verif-c15.')
    try:
        a = geninp.default_asm(2, ftf=ftf, axial=axial or None, P=0.0062, D=0.0050, Dw=0.0008,
                               extra=['bypass_gap_flow_fraction = %g' % env.params.get('byp', 0.05)] if len(ftf) > 2 else [])
        b = geninp.default_asm(3, P=0.0052, D=0.0042, Dw=0.0008)
        inp = geninp.write_case(d, {'a': a, 'b': b}, [('a', 1, 1, 'FLOWRATE=0.4'), ('b', 2, 1, 'FLOWRATE=0.5'), ('a', 2, 3, 'FLOWRATE=0.3')],
                                gap_model='none', core_len=0.06, pin_power=lambda k: 1.5e5 * (1 + 0.2 * k), other_power=2000.0)
        with npshim.unpatched():
            r = dassh.Reactor(dassh.DASSH_Input(inp), path=os.path.join(d, 'out'), write_output=False, axial_mesh_size=0.005)
            peak = [(-1.0, None)] * len(r.assemblies)
            dpeak = {}
            ndw = [max(np.asarray(rg.temp['duct_mw']).shape[0] for rg in asm.region) for asm in r.assemblies]
            # recorders look at the fields at the moment of the real peak updates (the region active during the step,
            # before any region change at the end of it)
            def spy(k, asm, real):
                def f():
                    m = float(np.max(asm.active_region.temp['coolant_int']))
                    if m > peak[k][0]:
                        peak[k] = (m, float(asm.z))
                    # walls of a region with fewer walls than the bundle are the outermost ones
                    mw_ = np.asarray(asm.active_region.temp['duct_mw'], dtype=float)
                    slots = dpeak.setdefault(k, {})
                    for j in range(mw_.shape[0]):
                        wall = ndw[k] - mw_.shape[0] + j
                        slots[wall] = max(slots.get(wall, -1.0), float(np.max(mw_[j])))
                    return real()
                return f
            for k, asm in enumerate(r.assemblies):
                asm._update_peak_coolant_temps = spy(k, asm, asm._update_peak_coolant_temps)
            r._data_setup()
            r._data_open()
            r.axial_step0()
            for i in range(1, len(r.z)):
                r.axial_step(r.z[i], r.dz[i - 1], i, False)
            try:
                r._data_close()
            except (AttributeError, KeyError):
                pass
            ct, dt = T.CoolantTempTable(), T.DuctTempTable()
            ct.make(r)
            dt.make(r)
    finally:
        shutil.rmtree(d, ignore_errors=True)
    rows = [l.split() for l in ct._table.splitlines() if l.strip() and l.split()[0].isdigit()]
    env.holds('one coolant row per assembly', len(rows) == len(r.assemblies))
    for k, asm in enumerate(r.assemblies):
        reg = asm.region[-1]
        Tint = np.asarray(reg.temp['coolant_int'], dtype=float)
        if hasattr(reg, 'subchannel') and hasattr(reg, 'int_flow_rate'):
            typ = np.asarray(reg.subchannel.type[:len(Tint)], dtype=int)
            w = np.asarray(reg.coolant_int_params['fs'], dtype=float)[typ] * np.asarray(reg.params['area'], dtype=float)[typ]
            w = w / w.sum() * float(reg.int_flow_rate)
        else:
            w = np.full(len(Tint), float(asm.flow_rate) / len(Tint))
        num, den = float(np.dot(w, Tint)), float(w.sum())
        if 'coolant_byp' in reg.temp and float(np.sum(reg.byp_flow_rate)) > 0:
            for g in range(reg.temp['coolant_byp'].shape[0]):
                wb = np.asarray(reg.area['coolant_byp'][g], dtype=float)
                wb = wb / wb.sum() * float(np.ravel(reg.byp_flow_rate)[g])
                num += float(np.dot(wb, np.asarray(reg.temp['coolant_byp'][g], dtype=float)))
                den += float(wb.sum())
        want = num / den
        row = rows[k]
        got_bulk, got_pk_out, got_pk_tot, got_ht = float(row[4]), float(row[5]), float(row[6]), float(row[-1])
        env.holds('assembly %d: printed bulk outlet = flow-weighted mean of the final-plane coolant field (0.006 K)' % k,
                  abs(got_bulk - want) <= 0.006, key='summary_outlet_not_the_final_plane_mean')
        env.holds('assembly %d: printed peak outlet = maximum of the final-plane interior field' % k,
                  abs(got_pk_out - float(np.max(Tint))) <= 0.006, key='summary_outlet_not_the_final_plane_mean')
        env.holds('assembly %d: printed peak coolant temperature and height = maximum over the planes swept' % k,
                  abs(got_pk_tot - peak[k][0]) <= 0.006 and abs(got_ht - peak[k][1]) <= 0.006, key='summary_peak_not_the_maximum')
        env.holds('fixture (assembly %d): interior and bypass outlet temperatures differ by more than the print resolution' % k,
                  ('coolant_byp' not in reg.temp) or abs(float(np.mean(reg.temp['coolant_byp'])) - float(np.mean(Tint))) > 0.05)
    drows = [l.split() for l in dt._table.splitlines() if l.strip() and l.split()[0].isdigit()]
    n = 0
    for k, asm in enumerate(r.assemblies):
        mw = np.asarray(asm.region[-1].temp['duct_mw'], dtype=float)
        for dct in range(mw.shape[0]):
            row = drows[n]
            n += 1
            faces = [float(x) for x in row[-8:-2]]
            per = mw[dct].reshape(6, -1)
            lo, hi = per.min(axis=1), per.max(axis=1)
            ok = all(min(lo[f], lo[f - 1]) - 0.006 <= faces[f] <= max(hi[f], hi[f - 1]) + 0.006 for f in range(6))
            env.holds('assembly %d duct %d: printed face averages lie within the final-plane mid-wall field of that face' % (k, dct), ok,
                      key='summary_duct_faces_not_the_final_plane')
            wall = ndw[k] - mw.shape[0] + dct
            env.holds('assembly %d, row of wall %d (outlet-plane wall %d): printed peak = maximum of that wall\'s mid-wall field over the planes swept'
                      % (k, wall, dct), abs(float(row[-2]) - dpeak[k][wall]) <= 0.006, key='summary_duct_peak_of_another_wall')


def body_pin_tables(env):
    """Peak pin temperature tables through the public path: a three-assembly core with a fuel pin model and a bottom-peaked
    power shape (so that the peaks of the five radial locations lie at different heights / pins) is swept; at every real
    update of the pin peaks the pin-temperature array is recorded; each of the five PeakPinTempTable variants must print,
    for every assembly, the pin, the height and the radial profile of the recorded maximum of *its own* location."""
    import os
    import shutil
    import tempfile
    from symx import geninp, npshim
    import dassh
    import dassh.table as T
    d = tempfile.mkdtemp(prefix='dassh-verif-c15.')
    try:
        mats = ['[[cladmat]]', '    thermal_conductivity = 21.5', '[[gapmat]]', '    thermal_conductivity = 0.35']
        sub = ['[[[FuelModel]]]', '    gap_thickness = 0.00004', '    clad_material = cladmat', '    gap_material = gapmat',
               '    r_frac = 0.0, 0.5', '    pu_frac = 0.2, 0.1', '    zr_frac = 0.1, 0.1', '    porosity = 0.25, 0.1']
        asms = {'a': geninp.default_asm(2, subsections=sub), 'b': geninp.default_asm(3, P=0.0052, D=0.0042, Dw=0.0008, subsections=sub)}
        shape = (1.6, 1.0, 0.35, 0.1)
        inp = geninp.write_case(d, asms, [('a', 1, 1, 'FLOWRATE=0.25'), ('b', 2, 1, 'FLOWRATE=0.5'), ('a', 2, 3, 'FLOWRATE=0.2')],
                                gap_model='none', core_len=0.08, materials_extra=mats, other_power=100.0,
                                power_cells=[(0.0, 0.02), (0.02, 0.04), (0.04, 0.06), (0.06, 0.08)],
                                pin_power=lambda k, ci=0: 6e3 * (1 + 0.15 * k) * shape[ci])
        cols = {'clad_od': 4, 'clad_mw': 5, 'clad_id': 6, 'fuel_od': 7, 'fuel_cl': 8}
        with npshim.unpatched():
            r = dassh.Reactor(dassh.DASSH_Input(inp), path=os.path.join(d, 'out'), write_output=False, axial_mesh_size=0.004)
            best = [{k: None for k in cols} for _ in r.assemblies]

            def spy(k, asm, real):
                def f():
                    arr = np.array(asm.pin_temp_array, dtype=float)
                    for nm, c in cols.items():
                        j = int(np.argmax(arr[:, c]))
                        if best[k][nm] is None or arr[j, c] > best[k][nm][c]:
                            best[k][nm] = arr[j].copy()
                    return real()
                return f
            for k, asm in enumerate(r.assemblies):
                asm._update_peak_pin_temps = spy(k, asm, asm._update_peak_pin_temps)
            r._data_setup()
            r._data_open()
            r.axial_step0()
            for i in range(1, len(r.z)):
                r.axial_step(r.z[i], r.dz[i - 1], i, False)
            try:
                r._data_close()
            except (AttributeError, KeyError):
                pass
            tabs = {}
            for comp, reg in (('clad', 'od'), ('clad', 'mw'), ('clad', 'id'), ('fuel', 'od'), ('fuel', 'cl')):
                t_ = T.PeakPinTempTable(comp, reg)
                t_.make(r)
                tabs[comp + '_' + reg] = [l.split() for l in t_._table.splitlines() if l.strip() and l.split()[0].isdigit()]
    finally:
        shutil.rmtree(d, ignore_errors=True)
    hts = set()
    for nm, c in cols.items():
        rows = tabs[nm]
        env.holds('%s table: one row per assembly' % nm, len(rows) == len(best))
        for k in range(min(len(rows), len(best))):
            b = best[k][nm]
            row = rows[k]
            # columns: index, name, pin, height, power, coolant, clad od, mw, id, fuel od, cl (as many as the table has)
            pin, ht = int(row[2]), float(row[3])
            temps = [float(x) for x in row[5:] if x.replace('.', '', 1).replace('-', '', 1).isdigit()]
            want = [float(x) for x in b[3:3 + len(temps)]]
            hts.add((k, round(float(b[1]), 6)))
            env.holds('%s table, assembly %d: pin and height of the maximum of that location' % (nm, k),
                      pin == int(b[2]) and abs(ht - float(b[1])) <= 0.051, key='pin_table_reports_another_location')
            env.holds('%s table, assembly %d: radial profile at the pin and height of that maximum (0.06 K)' % (nm, k),
                      len(temps) >= 1 and all(abs(x - y) <= 0.06 for x, y in zip(temps, want)), key='pin_table_reports_another_location')
    env.holds('fixture: the five locations do not all peak at the same height', len(hts) > len(best))


def instances(tier):
    inst = []
    for n, steps in ([(2, 1), (3, 1), (2, 2), (3, 2)] if tier == 'quick' else [(2, 1), (3, 1), (4, 1), (2, 2), (3, 2), (4, 2), (3, 3), (5, 1)]):
        inst.append(dict(label='coolant[cells=%d,steps=%d]' % (n, steps), body=body_coolant, params={'n': n, 'steps': steps},
                         max_paths=20000, max_depth=200))
    for n, ndr, nda, steps in ([(2, 1, 1, 1), (2, 2, 2, 1), (2, 1, 2, 1), (2, 1, 2, 2), (2, 2, 3, 1)] if tier == 'quick' else
                               [(2, 1, 1, 1), (3, 1, 1, 2), (2, 2, 2, 1), (3, 2, 2, 1), (2, 2, 2, 2), (2, 1, 2, 1), (2, 1, 2, 2),
                                (2, 2, 3, 1), (2, 3, 3, 1), (2, 1, 3, 2)]):
        inst.append(dict(label='duct[cells=%d,region_ducts=%d,assembly_ducts=%d,steps=%d]' % (n, ndr, nda, steps), body=body_duct,
                         params={'n': n, 'nd_reg': ndr, 'nd_asm': nda, 'steps': steps}, max_paths=20000, max_depth=200))
    for npin, steps in ([(2, 1), (3, 1), (2, 2)] if tier == 'quick' else [(2, 1), (3, 1), (2, 2), (4, 1), (3, 2), (5, 1)]):
        for focus in KEYS:
            inst.append(dict(label='pin[%s,pins=%d,steps=%d]' % (focus, npin, steps), body=body_pin,
                             params={'npin': npin, 'steps': steps, 'focus': focus}, max_paths=100000, max_depth=400))
    dd = (0.019, 0.021, 0.026, 0.028)
    for nm, ftf, axial in (('single duct, rods only', (0.026, 0.028), None), ('double duct, rods only', dd, None),
                           ('double duct, unrodded region below the rods', dd, [('lower', 0.0, 0.02, 0.3)]),
                           ('double duct, unrodded regions below and above', dd, [('lower', 0.0, 0.02, 0.3), ('upper', 0.04, 0.06, 0.3)]),
                           ('single duct, unrodded region below the rods', (0.026, 0.028), [('lower', 0.0, 0.02, 0.3)])):
        inst.append(dict(label='peak-store[%s]' % nm, body=body_store, params={'ftf': ftf, 'axial': axial}, check_vacuity=False))
    for nm, ftf, axial in (('single duct', (0.026, 0.028), None), ('double duct with flowing bypass', dd, None),
                           ('double duct, unrodded region below the rods', dd, [('lower', 0.0, 0.02, 0.3)]),
                           ('double duct, unrodded region above the rods', dd, [('upper', 0.04, 0.06, 0.3)])):
        inst.append(dict(label='summary-tables[%s]' % nm, body=body_summary, params={'ftf': ftf, 'axial': axial}, check_vacuity=False))
    inst.append(dict(label='pin-tables[fuel model, bottom-peaked power]', body=body_pin_tables, params={}, check_vacuity=False))
    return inst


def main():
    a = runner.main_args()
    inst = runner.select(instances(a.tier), a.only)
    runner.run_check(
        'C15', inst, a.tier,
        explanation=('One and two (three) applications of the real running-maximum updates from an arbitrary previous peak and '
                     'arbitrary new fields: every ordering of the field values is a path (np.max/np.argmax fork); on each path the '
                     'solver decides that the stored value is the maximum of everything seen, the stored height / radial profile '
                     'that of a plane (and pin) where the maximum is attained, and that ducts absent from the active region are untouched.'),
        bounds={'cells per field': '2..3 (quick) / 2..5', 'steps folded': '1..2 (quick) / 1..3', 'ducts': 'region 1..3 of assembly 1..3',
                'pins': '2..3 (quick) / 2..4'},
        outside=['summary tables: only the coolant and duct tables of enumerated real sweeps are read back (two decimals; float formatting has no symbolic content); PeakPinTempTable and the hot-spot columns are not read',
                 'the inlet plane (peaks are updated after each step only)', 'longer histories follow by induction over the fold step'],
        level_assumptions=['temperatures in (0, 5000] K; heights strictly increasing along the sweep'])


if __name__ == '__main__':
    main()
