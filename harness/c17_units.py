"""C17 -- results do not depend on the unit system of the input.

Real code executed symbolically: dassh/utils.py get_*_conversion + all scalar converters,
parse_mfr_units, format_unit; dassh/read_input.py DASSH_Input.check_units, convert_units,
check_spacergrid, module functions convert_temperature, convert_length,
convert_mass_flow_rate.  The `data` dictionary is produced by the real reader from a generated
complete input (every section the template knows, both pin-model kinds, all three boundary
condition kinds); then every float leaf becomes a solver variable and the real conversion code
runs on it.  Oracle: an independent classification of every template key (length / absolute
temperature / flow rate / dimensionless) with the SI definitions of the units.
"""
import copy
import fractions
import os
import re
import shutil
import tempfile

import numpy as np

from symx import runner, core, geninp
from symx.core import Sym
from harness.common import StubSelf

import dassh
import dassh.read_input as ri
import dassh.utils as um

MODS = [ri, um]
F = fractions.Fraction

# ---- independent oracle -----------------------------------------------------------
LEN = {'m': F(1), 'cm': F(1, 100), 'mm': F(1, 1000), 'in': F(254, 10000), 'ft': F(3048, 10000)}
MASS = {'kg': F(1), 'lb': F(45359237, 100000000)}
TIME = {'s': F(1), 'min': F(60), 'hr': F(3600)}
TEMPS = ('kelvin', 'celsius', 'fahrenheit')


def temp_to_k(x, unit):
    if unit == 'kelvin':
        return x
    if unit == 'celsius':
        return x + F(27315, 100)
    return (x - 32) * F(5, 9) + F(27315, 100)


# key name -> class, for every key of dassh/input_template.txt (a key that is not listed makes the
# check inconclusive rather than silently unchecked)
LENGTH_KEYS = {
    'Setup/axial_mesh_size', 'Setup/axial_plane', 'Setup/conv_approx_dz_cutoff', 'Setup/Dump/interval',
    'Setup/AssemblyTables/*/axial_positions', 'Core/length', 'Core/assembly_pitch',
    'Assembly/*/pin_pitch', 'Assembly/*/pin_diameter', 'Assembly/*/wire_pitch', 'Assembly/*/wire_diameter',
    'Assembly/*/duct_ftf', 'Assembly/*/clad_thickness', 'Assembly/*/AxialRegion/*/z_lo',
    'Assembly/*/AxialRegion/*/z_hi', 'Assembly/*/AxialRegion/*/hydraulic_diameter',
    'Assembly/*/AxialRegion/*/epsilon', 'Assembly/*/SpacerGrid/axial_positions',
    'Assembly/*/FuelModel/gap_thickness', 'Assembly/*/FuelModel/fcgap_thickness',
    'Assembly/*/PinModel/gap_thickness', 'Assembly/*/PinModel/fcgap_thickness',
}
TEMP_KEYS = {'Core/coolant_inlet_temp', 'Orificing/bulk_coolant_temp', 'Assignment/ByPosition/#/2/outlet_temp'}
FLOW_KEYS = {'Assignment/ByPosition/#/2/flowrate'}
KNOWN_TEMPLATE_KEYS = set('''axial_mesh_size axial_plane log_progress conv_approx_dz_cutoff conv_approx calc_energy_balance
se2geo debug param_update_tol parallel n_cpu include_gravity_head_loss all coolant duct pins gap gap_fine average maximum
pressure_drop interval temperature length mass_flow_rate type assemblies axial_positions thermal_conductivity heat_capacity
density viscosity beta from_file user_power total_power power_scaling_factor coolant_heating fuel_material fuel_alloy
power_model pmatrx geodst ndxsrf znatdn labels nhflux ghflux coolant_inlet_temp coolant_material bypass_fraction
assembly_pitch gap_model htc_params_duct num_rings pin_pitch pin_diameter wire_pitch wire_diameter wire_direction duct_ftf
duct_material clad_thickness corr_mixing corr_friction corr_flowsplit corr_shapefactor corr_nusselt dummy_pin
bypass_gap_flow_fraction bypass_gap_loss_coeff shape_factor use_low_fidelity_model low_fidelity_model convection_factor model
z_lo z_hi vf_coolant structure_material hydraulic_diameter epsilon magic_knob htc_params corr corr_coeff loss_coeff solidity
fcgap_thickness gap_thickness clad_material gap_material htc_params_clad r_frac pu_frac zr_frac porosity pin_material
input_sigma output_sigma subfactors assemblies_to_group n_groups group_cutoff group_cutoff_delta value_to_optimize
bulk_coolant_temp iteration_limit convergence_tol regroup regroup_option_tol regroup_improvement_tol pressure_drop_limit
recycle_results'''.split())


def template_keys():
    p = os.path.join(os.path.dirname(ri.__file__), 'input_template.txt')
    keys = set()
    for line in open(p):
        m = re.match(r'\s*([A-Za-z_0-9]+)\s*=', line)
        if m:
            keys.add(m.group(1))
    return keys


# ---- fixture ------------------------------------------------------------------------
_FIX = {}


def fixture():
    """`data` of the real reader for a complete SI input (parsed once per process)."""
    if 'data' in _FIX:
        return copy.deepcopy(_FIX['data'])
    d = tempfile.mkdtemp(prefix='dassh-verif-c17.')
    try:
        fm = ['[[[FuelModel]]]', '    gap_thickness = 0.00001', '    clad_material = ss_fixed', '    gap_material = na_fixed',
              '    r_frac = 0.0, 0.33333, 0.66667', '    pu_frac = 0.2, 0.2, 0.2', '    zr_frac = 0.1, 0.1, 0.1',
              '    porosity = 0.25, 0.25, 0.25']
        pm = ['[[[PinModel]]]', '    gap_thickness = 0.00002', '    clad_material = ss_fixed', '    gap_material = na_fixed',
              '    r_frac = 0.0, 0.5', '    pin_material = ox1, ox2']
        sg = ['[[[SpacerGrid]]]', '    loss_coeff = 0.9', '    axial_positions = 0.12, 0.25']
        asms = {'fuel': geninp.default_asm(2, subsections=fm + sg,
                                           axial=[('lower', 0.0, 0.1, 0.3), ('upper', 0.3, 0.4, 0.3)],
                                           axial_extra={'lower': ['hydraulic_diameter = 0.004', 'epsilon = 0.00001']}),
                'ctrl': geninp.default_asm(2, subsections=pm)}
        inp = geninp.write_case(
            d, asms, [('fuel', 1, 1, 'FLOWRATE=0.5'), ('ctrl', 2, 2, 'OUTLET_TEMP=773.15'), ('fuel', 2, (4, 5), 'DELTA_TEMP=120.0'),
                      ('fuel', 3, (2, 3), 'FLOWRATE=0.4'), ('ctrl', 3, (6, 7), 'OUTLET_TEMP=780.0')],
            setup_lines=['axial_mesh_size = 0.005', 'axial_plane = 0.13, 0.27', 'conv_approx = True',
                         'conv_approx_dz_cutoff = 0.001', '[[Dump]]', '    coolant = True', '    interval = 0.05',
                         '[[AssemblyTables]]', '    [[[t1]]]', '        type = duct_mw', '        assemblies = 1',
                         '        axial_positions = 0.1, 0.2'],
            materials_extra=['[[ox1]]', '    thermal_conductivity = 3.0', '[[ox2]]', '    thermal_conductivity = 3.0'],
            orificing=['assemblies_to_group = fuel', 'n_groups = 1', 'value_to_optimize = peak coolant temp',
                       'bulk_coolant_temp = 773.15', 'pressure_drop_limit = 1.0'])
        obj = dassh.DASSH_Input(inp)
        data = obj.data
        # plain-python copy (ConfigObj sections -> dicts) without the Material objects
        _FIX['data'] = _plain(data)
    finally:
        shutil.rmtree(d, ignore_errors=True)
    return copy.deepcopy(_FIX['data'])


def _plain(x, memo=None):
    """Plain-python copy that keeps aliasing: a dictionary or list that occurs twice in the reader's data occurs twice (as
    one object) in the copy, so that an in-place conversion applied once per alias is seen."""
    memo = {} if memo is None else memo
    if isinstance(x, (dict, list)) and id(x) in memo:
        return memo[id(x)]
    if isinstance(x, dict):
        out = {}
        memo[id(x)] = out
        for k, v in x.items():
            out[k] = _plain(v, memo)
        return out
    if isinstance(x, list):
        out = []
        memo[id(x)] = out
        out.extend(_plain(v, memo) for v in x)
        return out
    if isinstance(x, tuple):
        return [_plain(v, memo) for v in x]
    if isinstance(x, (np.floating,)):
        return float(x)
    if isinstance(x, (np.integer,)):
        return int(x)
    return x


def _norm(path):
    """Path with assembly / region names as '*' and list indices as '#' (the ByPosition entry index
    and its kwargs slot are kept)."""
    out = []
    for i, p in enumerate(path):
        if isinstance(p, int):
            if len(out) >= 2 and out[0] == 'Assignment' and len(out) == 3:
                out.append(str(p))        # slot inside a ByPosition entry
            else:
                out.append('#')
        elif i >= 1 and path[i - 1] in ('Assembly', 'AxialRegion', 'AssemblyTables', 'Materials', 'Hotspot', 'Plot'):
            out.append('*')
        else:
            out.append(p)
    s = '/'.join(out)
    return s


def klass(path):
    n = _norm(path)
    base = re.sub(r'/#$', '', n)
    if base in LENGTH_KEYS:
        return 'length'
    if base in TEMP_KEYS:
        return 'temperature'
    if base in FLOW_KEYS:
        return 'flow'
    if base == 'Assignment/ByPosition/#/2/delta_temp':
        return 'delta'
    return 'none'


def symbolise(env, node, path, leaves, memo=None):
    """Replace every float leaf by an input variable; returns the new node.  Aliasing is preserved: a dictionary or list
    that the reader put into the data twice stays one object (its leaves get one variable each), so that an in-place
    conversion applied once per alias shows up as a leaf converted twice."""
    memo = {} if memo is None else memo
    if isinstance(node, (dict, list)) and id(node) in memo:
        return memo[id(node)]
    if isinstance(node, dict):
        out = {}
        memo[id(node)] = out
        for k, v in node.items():
            out[k] = symbolise(env, v, path + (k,), leaves, memo)
        return out
    if isinstance(node, list):
        out = []
        memo[id(node)] = out
        for i, v in enumerate(node):
            out.append(symbolise(env, v, path + (i,), leaves, memo))
        return out
    if isinstance(node, float):
        name = 'leaf_' + re.sub(r'[^A-Za-z0-9]+', '_', '/'.join(map(str, path)))
        v = env.real(name, lo=-1e6, hi=1e6)
        leaves.append((path, v))
        return v
    return node


def get(node, path):
    for p in path:
        node = node[p]
    return node


def body_convert(env):
    lu, tu, mu, tmu = env.params['length'], env.params['temperature'], env.params['mass'], env.params['time']
    with env.patch(MODS):
        unk = template_keys() - KNOWN_TEMPLATE_KEYS
        env.holds('every key of input_template.txt is classified by the oracle', not unk)
        data = fixture()
        leaves = []
        data = symbolise(env, data, (), leaves)
        data['Setup']['Units'] = {'temperature': tu, 'length': lu, 'mass_flow_rate': '%s/%s' % (mu, tmu)}
        optional_none = env.params.get('optional_none', False)
        if optional_none:
            # optional dimensional inputs left out by the user
            leaves = [(p_, v_) for (p_, v_) in leaves if p_ not in (
                ('Setup', 'Dump', 'interval'), ('Setup', 'axial_mesh_size'), ('Setup', 'conv_approx_dz_cutoff'))
                and p_[:2] != ('Setup', 'axial_plane')]
            data['Setup']['Dump']['interval'] = None
            data['Setup']['axial_mesh_size'] = None
            data['Setup']['conv_approx_dz_cutoff'] = None
            data['Setup']['axial_plane'] = None
        # third boundary-condition kind: delta_temp is turned into an outlet temperature by
        # convert_assn_deltaT_to_outletT (before the unit conversion); redo that on symbols
        bp = data['Assignment']['ByPosition']
        tin = data['Core']['coolant_inlet_temp']
        delta = env.real('leaf_delta_temp', lo=-1e6, hi=1e6)
        i_delta = [i for i, e in enumerate(bp) if e and 'outlet_temp' in e[2]][-1]     # the entry given as DELTA_TEMP
        for i, e in enumerate(bp):
            if e and i == i_delta:
                e[2] = {'delta_temp': delta}
        ref = None
        if optional_none:
            # reference: the same data declared in SI units
            rdata = copy.deepcopy(data)
            rdata['Setup']['Units'] = {'temperature': 'kelvin', 'length': 'm', 'mass_flow_rate': 'kg/s'}
            rs = StubSelf(_bind=(ri.DASSH_Input, ['convert_units', 'convert_assn_deltaT_to_outletT']), data=rdata)
            rs.convert_assn_deltaT_to_outletT()
            rs.convert_units()
            ref = rs.data
        s = StubSelf(_bind=(ri.DASSH_Input, ['convert_units', 'convert_assn_deltaT_to_outletT']), data=data)
        try:
            s.convert_assn_deltaT_to_outletT()
            s.convert_units()
        except (ValueError, KeyError, TypeError, AttributeError) as ex:
            env.fail('unit system accepted by check_units is converted without an exception',
                     why=repr(ex)[:200], key='convert_units_raises')
            env.stop()
        out = s.data
        for path, v in leaves:
            if path[:3] == ('Assignment', 'ByPosition', i_delta) and path[3:] == (2, 'outlet_temp'):
                continue
            try:
                after = get(out, path)
            except (KeyError, IndexError):
                env.fail('leaf %s still present after conversion' % _norm(path))
                continue
            k = klass(path)
            nm = '/'.join(map(str, path))
            if k == 'length':
                env.eq('length %s converted to metres exactly once' % nm, after, v * LEN[lu],
                       key='length_not_converted:' + _norm(path))
            elif k == 'temperature':
                env.eq('temperature %s converted to kelvin exactly once' % nm, after, temp_to_k(v, tu))
            elif k == 'flow':
                exact = v * MASS[mu] / TIME[tmu]
                env.le('flow rate %s converted to kg/s (1e-6 relative), hi' % nm, after - exact, abs(exact) * 1e-6 + 1e-12)
                env.ge('flow rate %s converted to kg/s (1e-6 relative), lo' % nm, after - exact, -abs(exact) * 1e-6 - 1e-12)
            else:
                env.eq('dimensionless %s unchanged' % nm, after, v)
        if optional_none:
            for pth in (('Setup', 'Dump', 'interval'), ('Setup', 'axial_mesh_size'), ('Setup', 'conv_approx_dz_cutoff'),
                        ('Setup', 'axial_plane')):
                a_, r_ = get(out, pth), get(ref, pth)
                env.holds('omitted optional input %s gets the same value as in SI units' % '/'.join(pth),
                          (a_ is None and r_ is None) or (a_ is not None and r_ is not None and a_ == r_),
                          key='default_depends_on_units:' + '/'.join(pth))
        # temperature difference: outlet = inlet + delta in kelvin with the delta scaled, not offset
        e = out['Assignment']['ByPosition'][i_delta][2]
        env.holds('delta_temp replaced by outlet_temp', 'outlet_temp' in e and 'delta_temp' not in e)
        scale = F(5, 9) if tu == 'fahrenheit' else 1
        if 'outlet_temp' in e:
            env.eq('temperature difference treated as a difference', e['outlet_temp'], temp_to_k(tin, tu) + delta * scale)


def body_roundtrip(env):
    kind, unit = env.params['kind'], env.params['unit']
    with env.patch(MODS):
        x = env.real('x', lo=-1e9, hi=1e9)
        getter = {'length': um.get_length_conversion, 'temperature': um.get_temperature_conversion,
                  'mass': um.get_mass_conversion, 'time': um.get_time_conversion}[kind]
        base = {'length': 'm', 'temperature': 'k', 'mass': 'kg', 'time': 's'}[kind]
        to = getter(unit, base)
        back = getter(base, unit)
        env.eq('%s: %s -> %s -> %s is the identity' % (kind, base, unit, base), to(back(x)), x)
        env.eq('%s: %s -> %s -> %s is the identity' % (kind, unit, base, unit), back(to(x)), x)
        if kind == 'length':
            env.eq('1 %s in metres' % unit, to(x), x * LEN[um.format_unit(unit)])
        elif kind == 'temperature':
            full = {'c': 'celsius', 'f': 'fahrenheit'}[um.format_unit(unit)]
            env.eq('%s in kelvin' % unit, to(x), temp_to_k(x, full))
        elif kind == 'time':
            env.eq('1 %s in seconds' % unit, to(x), x * TIME[{'min': 'min', 'hr': 'hr'}[um.format_unit(unit)]])


def body_spellings(env):
    """Every spelling check_units accepts is normalised to something the converters handle."""
    lu, tu, mu = env.params['length'], env.params['temperature'], env.params['mfr']
    with env.patch(MODS):
        data = fixture()
        data['Setup']['Units'] = {'temperature': tu, 'length': lu, 'mass_flow_rate': mu}
        s = StubSelf(_bind=(ri.DASSH_Input, ['check_units', 'convert_units']), data=data)
        try:
            s.check_units()
        except SystemExit:
            env.holds('rejected with an error message', any(l == 'error' for l, _ in s._log))
            env.stop()
        x = env.real('flow', lo=0, hi=1e6)
        data['Assignment']['ByPosition'][0][2]['flowrate'] = x
        try:
            s.convert_units()
        except (ValueError, KeyError, TypeError, AttributeError) as ex:
            env.fail('unit spelling accepted by check_units is converted without an exception',
                     why=repr(ex)[:200], key='convert_units_raises')
            env.stop()
        got = s.data['Assignment']['ByPosition'][0][2]['flowrate']
        env.gt('converted flow positive', got, 0)
        # the meaning of the spelling: its mass word is one of the pound or kilogram words, its time word one of the second,
        # minute or hour words (the word lists of dassh.utils; the grouping is the semantics) -- the value must come out in kg/s
        mm = mu.lower().replace(' ', '')
        parts = mm.split('/') if '/' in mm else mm.split('per')
        if len(parts) == 2:
            mass = 'lb' if parts[0] in um._lb else ('kg' if parts[0] in um._kg else None)
            tm = 's' if parts[1] in um._sec else ('min' if parts[1] in um._min else ('hr' if parts[1] in um._hr else None))
            if mass and tm:
                want = x * float(MASS[mass] / TIME[tm])
                env.holds('flow given in "%s" comes out in kg/s (1e-6 relative)' % mu,
                          env.land(got - want <= 1e-6 * want, want - got <= 1e-6 * want), key='spelling_converted_as_another_unit')


def body_output_units(env):
    """Way back (dassh/table.py): the converters the summary tables use to report internal SI values in the user's units are
    the inverses of the input conversion -- a flow in kg/s, a length in m and a temperature in K come out as the number the
    user would have typed for that quantity."""
    import dassh.table as tb
    lu, tu, mass, tm = env.params['length'], env.params['temperature'], env.params['mass'], env.params['time']
    with env.patch(MODS + [tb]):
        t_ = StubSelf(_bind=(tb.DASSH_Table, ['_get_len_conv', '_get_temp_conv', '_get_mfr_conv']))
        x = env.real('flow_kg_s', lo=0, hi=1e6)
        got = t_._get_mfr_conv('%s/%s' % (mass, tm))(x)
        want = x * float(TIME[tm] / MASS[mass])
        env.holds('flow rate reported in %s/%s (1e-6 relative)' % (mass, tm), env.land(got - want <= 1e-6 * want, want - got <= 1e-6 * want),
                  key='output_converted_as_another_unit')
        y = env.real('length_m', lo=0, hi=1e3)
        gl = t_._get_len_conv(lu)(y)
        wl = y / float(LEN[lu])
        env.holds('length reported in %s (1e-9 relative)' % lu, env.land(gl - wl <= 1e-9 * wl, wl - gl <= 1e-9 * wl), key='output_converted_as_another_unit')
        T = env.real('temperature_K', lo=1, hi=5000)
        gt_ = t_._get_temp_conv(tu)(T)
        wt = {'kelvin': T, 'celsius': T - 273.15, 'fahrenheit': (T - 273.15) * 1.8 + 32.0}[tu]
        env.holds('temperature reported in %s (1e-9 K)' % tu, env.land(gt_ - wt <= 1e-9, wt - gt_ <= 1e-9), key='output_converted_as_another_unit')


def body_spacergrid(env):
    """check_spacergrid consults the length unit: same verdict in every unit system."""
    lu = env.params['length']
    with env.patch(MODS):
        data = fixture()
        data['Setup']['Units'] = {'temperature': 'kelvin', 'length': lu, 'mass_flow_rate': 'kg/s'}
        a = data['Assembly']['fuel']
        g_m = env.real('pin_gap_m', lo=0, hi=0.02)         # physical gap in metres
        a['pin_diameter'] = 0.006 / float(LEN[lu])
        a['pin_pitch'] = a['pin_diameter'] + g_m / LEN[lu]
        a['wire_diameter'] = 0.0
        a['AxialRegion']['rods']['z_lo'] = 0.1 / float(LEN[lu])
        a['AxialRegion']['rods']['z_hi'] = 0.3 / float(LEN[lu])
        a['SpacerGrid'] = {'corr': 'REH', 'corr_coeff': None, 'loss_coeff': None,
                           'axial_positions': [0.12 / float(LEN[lu]), 0.25 / float(LEN[lu])], 'solidity': None}
        data['Assembly'] = {'fuel': a}
        s = StubSelf(_bind=(ri.DASSH_Input, ['check_spacergrid']), data=data)
        sol = 0.6957 - 162.8 * g_m
        try:
            s.check_spacergrid()
            accepted = True
        except SystemExit:
            accepted = False
        except (ValueError, KeyError, TypeError) as ex:
            env.fail('spacer-grid check runs in every accepted unit system', why=repr(ex)[:200],
                     key='check_spacergrid_raises')
            env.stop()
        if accepted:
            env.holds('accepted exactly when the default solidity is within [0, 1]', env.land(sol >= 0, sol <= 1))
        else:
            env.holds('rejected exactly when the default solidity is outside [0, 1]', env.lor(sol < 0, sol > 1))


def instances(tier):
    inst = []
    lens = ['m', 'cm', 'mm', 'in', 'ft']
    for kind, units in (('length', um._cm[:1] + um._mm[:1] + um._in[:1] + um._ft[:1]), ('temperature', ['c', 'f']),
                        ('mass', ['lb']), ('time', ['min', 'hr'])):
        for u in units:
            inst.append(dict(label='roundtrip[%s,%s]' % (kind, u), body=body_roundtrip, params={'kind': kind, 'unit': u}))
    combos = []
    for lu in lens:
        for tu in TEMPS:
            for mu in ('kg', 'lb'):
                for tm in ('s', 'min', 'hr'):
                    combos.append((lu, tu, mu, tm))
    for lu, tu, mu, tm in combos:
        inst.append(dict(label='convert[%s,%s,%s/%s]' % (lu, tu, mu, tm), body=body_convert,
                         params={'length': lu, 'temperature': tu, 'mass': mu, 'time': tm}))
    for lu in lens:
        inst.append(dict(label='convert-optional-omitted[%s]' % lu, body=body_convert,
                         params={'length': lu, 'temperature': 'celsius', 'mass': 'lb', 'time': 'hr', 'optional_none': True}))
    spell = []
    for l in um._cm + um._mm + um._m + um._in + um._ft:
        spell.append((l, 'K', 'kg/s'))
    for t in um._degC + um._degF + um._degK:
        spell.append(('m', t, 'kg/s'))
    for m in um._lb + um._kg:
        for t in um._sec + um._min + um._hr:
            spell.append(('m', 'K', '%s/%s' % (m, t)))
            if tier == 'thorough':
                spell.append(('m', 'K', '%s per %s' % (m, t)))
    spell += [('Meters', 'Kelvin', 'KG/S'), ('furlong', 'K', 'kg/s'), ('m', 'rankine', 'kg/s'), ('m', 'K', 'stone/s')]
    for l, t, m in spell:
        inst.append(dict(label='spelling[%s,%s,%s]' % (l, t, m), body=body_spellings,
                         params={'length': l, 'temperature': t, 'mfr': m}))
    k_ = 0
    for mass in ('kg', 'lb'):
        for tm in ('s', 'min', 'hr'):
            lu_ = ('m', 'cm', 'mm', 'in', 'ft', 'm')[k_]
            tu_ = TEMPS[k_ % 3]
            k_ += 1
            inst.append(dict(label='output-units[%s,%s,%s/%s]' % (lu_, tu_, mass, tm), body=body_output_units,
                             params={'length': lu_, 'temperature': tu_, 'mass': mass, 'time': tm}))
    for lu in lens:
        inst.append(dict(label='spacergrid[%s]' % lu, body=body_spacergrid, params={'length': lu}))
    return inst


def main():
    a = runner.main_args()
    inst = runner.select(instances(a.tier), a.only)
    runner.run_check(
        'C17', inst, a.tier,
        explanation=('The data dictionary of the real reader for a complete generated input has every float leaf replaced '
                     'by a solver variable; the real conversion functions run on it for each unit combination; for every leaf '
                     'the solver decides after == factor*before (+offset) exactly once for dimensional keys and after == before '
                     'otherwise, against an independent key classification.  Round trips of all scalar converters are '
                     'identities over the reals; every unit spelling check_units accepts must be converted without exception.'),
        bounds={'unit combinations': 'all 90 (5 length x 3 temperature x 2 mass x 3 time)', 'unit spellings': 'every spelling in the utils tables (thorough adds the "per" forms)',
                'fixture': '2 assembly types (FuelModel + SpacerGrid + 2 axial regions; PinModel), 5 assignment lines (three of them spanning two positions) on a 19-position map with '
                           'empty positions between them (flowrate, outlet_temp, delta_temp, flowrate), Orificing, AssemblyTables, Dump'},
        outside=['effect on Reactor.z / temperatures (follows from identical SI data)', 'table.py output conversion',
                 'string parsing by ConfigObj'],
        level_assumptions=['the key classification table in this harness (length / temperature / flow / dimensionless) is the oracle',
                           'lb = 0.45359237 kg with 1e-6 relative tolerance (the code uses 0.453592)'])


if __name__ == '__main__':
    main()
