"""C06 -- assemblies interact only through duct-wall heat transfer.

Self-composition over the real clone code: universe X builds a template region and two clones
A, B with the real RoddedRegion.clone / SingleNodeHomogeneous.clone / Assembly.clone and runs
"A finishes its step, B finishes its step, A advances"; universe Y builds its own template and
a single clone A' carrying A's data and runs "A' finishes its step, A' advances".  The real
Material objects are kept (update, property setters, clone are the real methods); their
property tables are replaced by uninterpreted functions of temperature, so whatever aliasing
the real clone code creates decides whether A's explicit step reads properties evaluated at
B's temperature.  The solver is asked whether A and A' can differ.

Real code: RoddedRegion.clone, SingleNodeHomogeneous.clone, MultiNodeHomogeneous.clone,
Assembly.clone, Material.update / clone / setters, RoddedRegion._calc_coolant_int_temp,
_calc_duct_temp, SingleNodeHomogeneous._calc_coolant_temp, Reactor construction (object graph).
"""
import copy
import os
import shutil
import tempfile

import numpy as np
import z3

from symx import runner, core, fixtures, geninp, npshim
from symx.core import Sym

import dassh
import dassh.region_rodded as rrm
import dassh.region_unrodded as rum
import dassh.region as rgm
import dassh.material as mm
import dassh.assembly as am
from dassh.material import Material

MODS = [rrm, rum, rgm, mm, am]


def _uf_data(mat, kind):
    """Replace the property tables of a real Material by UFs of temperature (positive)."""
    def mk(prop):
        f = core.uf('%s_%s' % (kind.upper(), prop.upper()))

        def call(T):
            v = f(core.toz(T))
            core.CTX.side.append(v > 0)
            return Sym(v)
        return call
    mat._data = {k: mk(k) for k in mat._data.keys()}


def _make_template(kind):
    cool, duct = Material('sodium'), Material('ht9')
    if kind[0] == 'rodded':
        r = fixtures.make_rodded(2, kind[1], byp_ff=0.05 if kind[1] > 1 else None, coolant=cool, duct=duct,
                                 corr=('NOV', 'NOV', 'MIT'))
    else:
        r = fixtures.make_unrodded(kind[0], coolant=cool, duct=duct)
    return r


def _materials_of(r):
    out = []
    for nm in ('coolant', 'duct'):
        m = getattr(r, nm, None)
        if m is not None:
            out.append((nm, m))
    return out


def _vec(env, name, n, lo, hi):
    a = np.empty(n, dtype=object)
    for i in range(n):
        a[i] = env.real('%s%d' % (name, i), lo=lo, hi=hi)
    return a.astype(float) if env.mode == 'replay' else a


def body_step(env):
    kind = env.params['kind']
    with env.patch(MODS):
        fa = 1.0
        fb = 1.7
        # universe X
        tX = _make_template(kind)
        A = tX.clone(new_flowrate=fa)
        B = tX.clone(new_flowrate=fb)
        # universe Y
        tY = _make_template(kind)
        A2 = tY.clone(new_flowrate=fa)
        if env.mode == 'sym':
            seen = set()
            for reg in (tX, A, B, tY, A2):
                for nm, m in _materials_of(reg):
                    if id(m) not in seen:
                        seen.add(id(m))
                        _uf_data(m, nm)
            env.stub('Material property tables replaced by uninterpreted positive functions of temperature; '
                     'Material.update/clone/setters are the real methods')
        TA = env.real('Tavg_A', lo=400, hi=1500)
        TB = env.real('Tavg_B', lo=400, hi=1500)
        env.assume(env.lor(TB - TA >= 1, TA - TB >= 1))
        # end of the previous step: every assembly updates its material at its own mean temperature,
        # in core order (A then B); alone, only A'
        A.coolant.update(TA)
        A.duct.update(TA)
        B.coolant.update(TB)
        B.duct.update(TB)
        A2.coolant.update(TA)
        A2.duct.update(TA)
        dz = env.pos('dz', hi=0.1)
        if kind[0] == 'rodded':
            nsc = A.subchannel.n_sc['coolant']['total']
            T = _vec(env, 'T', nsc, 400, 1500)
            q = _vec(env, 'q_pin', A.n_pin, 0, 1e5)
            for reg in (A, A2):
                reg.temp['coolant_int'] = T.copy()
            dA = A._calc_coolant_int_temp(dz, q, None)
            dA2 = A2._calc_coolant_int_temp(dz, q, None)
            for i in range(nsc):
                env.eq('A in company = A alone: coolant cell %d' % i, dA[i], dA2[i], tol=1e-10, key='shared_material_state')
        else:
            ncool = 1 if kind[0] == 'simple' else 6
            T = _vec(env, 'T', ncool, 400, 1500)
            q = env.pos('q_refl', hi=1e6)
            for reg in (A, A2):
                reg.temp['coolant_int'] = T.copy()
                reg._update_coolant_params = lambda *a, **k: None
            env.stub('correlated-parameter update of low-fidelity regions is a no-op (it would refresh the material itself)')
            dA = A._calc_coolant_temp(dz, {'refl': q}, True)
            dA2 = A2._calc_coolant_temp(dz, {'refl': q}, True)
            dA = np.ravel(dA)
            dA2 = np.ravel(dA2)
            for i in range(len(dA)):
                env.eq('A in company = A alone: coolant node %d' % i, dA[i], dA2[i], tol=1e-10, key='shared_material_state')


STATEFUL = ['coolant', 'duct', 'temp', 'ebal', '_pressure_drop', 'coolant_int_params', 'coolant_byp_params',
            'coolant_params', '_coolant_tracker', 'pin_temps']


def _mutables(root, path, out, depth=0):
    """ids of every mutable container (dict, list, ndarray) and Material object reachable from `root` -> where it was found.
    Material objects are not entered (their property tables are read-only data shared by design)."""
    if depth > 6 or root is None:
        return
    if isinstance(root, Material):
        out.setdefault(id(root), path)
        return
    if isinstance(root, np.ndarray):
        out.setdefault(id(root), path)
        if root.dtype == object:
            for i, v in enumerate(root.ravel()[:50]):
                _mutables(v, '%s[%d]' % (path, i), out, depth + 1)
        return
    if isinstance(root, dict):
        out.setdefault(id(root), path)
        for k, v in root.items():
            _mutables(v, '%s[%r]' % (path, k), out, depth + 1)
        return
    if isinstance(root, list):
        out.setdefault(id(root), path)
        for i, v in enumerate(root[:50]):
            _mutables(v, '%s[%d]' % (path, i), out, depth + 1)
        return

def _state_ids(asm):
    out = {}
    for nm in ('_peak', '_power_delivered'):
        if hasattr(asm, nm):
            _mutables(getattr(asm, nm), nm, out)
    for ri, reg in enumerate(getattr(asm, 'region', [])):
        for nm in STATEFUL:
            if hasattr(reg, nm):
                _mutables(getattr(reg, nm), 'region[%d].%s' % (ri, nm), out)
    return out


def body_graph_region(env):
    """Object graph after the real clone: no stateful object is shared between two clones or
    between a clone and its template."""
    kind = env.params['kind']
    t = _make_template(kind)
    if kind[0] == 'rodded' and env.params.get('tracker'):
        t = fixtures.make_rodded(2, kind[1], byp_ff=0.05 if kind[1] > 1 else None, update_tol=0.01)
    A = t.clone(new_flowrate=1.0)
    B = t.clone(new_flowrate=2.0)
    for nm in STATEFUL:
        objs = [getattr(x, nm) for x in (t, A, B) if hasattr(x, nm)]
        if len(objs) < 2:
            continue
        ok = all(objs[i] is not objs[j] for i in range(len(objs)) for j in range(i + 1, len(objs)))
        env.holds('clones do not share the stateful attribute %s' % nm, ok,
                  key='shared_material_state' if nm in ('coolant', 'duct') else 'shared_' + nm)
        if isinstance(objs[0], dict):
            for k in objs[0]:
                vals = [o[k] for o in objs if k in o]
                if isinstance(vals[0], np.ndarray):
                    env.holds('clones do not share the array %s[%s]' % (nm, k),
                              all(vals[i] is not vals[j] for i in range(len(vals)) for j in range(i + 1, len(vals))))
    if all(hasattr(x, '_coolant_tracker') for x in (t, A, B)):
        # behavioural, because a tracker is a plain object holding lists: two distinct trackers may still hold the same lists, which
        # matters exactly when a method writes into them.  Drive the real tracker of clone A through update / reset / update at
        # other temperatures and look at what clone B and the template can observe of theirs.
        def snap(x):
            return copy.deepcopy({k: v for k, v in vars(x._coolant_tracker).items()})
        before = [snap(t), snap(B)]
        with npshim.unpatched():
            for T in (700.0, 900.0, 650.0):
                A.coolant.update(T)
                A._coolant_tracker.update(A.coolant)
                A._coolant_tracker.reset()
            A.coolant.update(800.0)
            A._coolant_tracker.update(A.coolant)
        after = [snap(t), snap(B)]
        env.holds('update / reset / update of the property tracker of clone A leaves the tracker state of the template unchanged',
                  repr(before[0]) == repr(after[0]), key='shared__coolant_tracker')
        env.holds('update / reset / update of the property tracker of clone A leaves the tracker state of clone B unchanged',
                  repr(before[1]) == repr(after[1]), key='shared__coolant_tracker')
        with npshim.unpatched():
            A.coolant.update(t.coolant.temperature)
    ids = [_region_ids(x) for x in (t, A, B)]
    for (i, j, what) in ((1, 2, 'two clones'), (0, 1, 'template and clone')):
        shared = sorted(ids[i][k] for k in set(ids[i]) & set(ids[j]))
        env.holds('%s share no mutable state object at any depth below the stateful attributes%s' % (what, '' if not shared else ': shared ' + ', '.join(shared[:4])),
                  not shared, key='shared_nested_state')


def _region_ids(reg):
    out = {}
    for nm in STATEFUL:
        if hasattr(reg, nm):
            _mutables(getattr(reg, nm), nm, out)
    return out


def body_graph_reactor(env):
    """Same, through the public path: a real Reactor with three assemblies of one type."""
    d = tempfile.mkdtemp(prefix='dassh-verif-c06.')
    try:
        asms = {'fuel': geninp.default_asm(2, axial=[('lower', 0.0, 0.1, 0.3)] if env.params.get('unrodded') else None,
                                           lowfid=None)}
        inp = geninp.write_case(d, asms, [('fuel', 1, 1, 'FLOWRATE=0.5'), ('fuel', 2, 1, 'FLOWRATE=0.4'), ('fuel', 2, 2, 'FLOWRATE=0.3')],
                                gap_model='none', coolant='sodium')
        r = dassh.Reactor(dassh.DASSH_Input(inp), path=os.path.join(d, 'out'), write_output=False)
        a = r.assemblies
        for i in range(len(a)):
            for j in range(i + 1, len(a)):
                for ri in range(len(a[i].region)):
                    for nm in ('coolant', 'duct'):
                        env.holds('assemblies %d and %d: region %d does not share its %s Material' % (i, j, ri, nm),
                                  getattr(a[i].region[ri], nm) is not getattr(a[j].region[ri], nm), key='shared_material_state')
                    env.holds('assemblies %d and %d: region %d has its own temperature arrays' % (i, j, ri),
                              a[i].region[ri].temp is not a[j].region[ri].temp)
                env.holds('assemblies %d and %d: own peak bookkeeping' % (i, j), a[i]._peak is not a[j]._peak)
                # deep: no mutable container anywhere below the stateful attributes is one object in two assemblies
                si, sj = _state_ids(a[i]), _state_ids(a[j])
                shared = sorted(si[k] for k in set(si) & set(sj))
                env.holds('assemblies %d and %d share no mutable state object (dictionaries, lists, arrays below the peak / power / '
                          'region state attributes)%s' % (i, j, '' if not shared else ': shared ' + ', '.join(shared[:4])), not shared,
                          key='shared_nested_state')
    finally:
        shutil.rmtree(d, ignore_errors=True)


def _snapshot(obj, depth=0, seen=None):
    """Value snapshot of everything numeric reachable from obj (attributes, dictionaries, lists, arrays; Material state)."""
    seen = set() if seen is None else seen
    if depth > 5 or id(obj) in seen:
        return None
    if isinstance(obj, np.ndarray):
        return np.array(obj, dtype=float) if obj.dtype != object else None
    if isinstance(obj, (bool, int, float, np.floating, np.integer)):
        return float(obj)
    if isinstance(obj, dict):
        seen.add(id(obj))
        return {str(k): _snapshot(v, depth + 1, seen) for k, v in obj.items()}
    if isinstance(obj, (list, tuple)):
        seen.add(id(obj))
        return [_snapshot(v, depth + 1, seen) for v in obj[:400]]
    if hasattr(obj, '__dict__') and type(obj).__module__.startswith('dassh') and not callable(obj):
        seen.add(id(obj))
        return {k: _snapshot(v, depth + 1, seen) for k, v in vars(obj).items() if k not in ('logger', 'log')}
    return None


def _diff(a, b, path, out):
    if len(out) > 5 or a is None or b is None:
        return
    if isinstance(a, dict) and isinstance(b, dict):
        for k in a:
            if k in b:
                _diff(a[k], b[k], path + '.' + k, out)
    elif isinstance(a, list) and isinstance(b, list):
        for i, (x, y) in enumerate(zip(a, b)):
            _diff(x, y, '%s[%d]' % (path, i), out)
    elif isinstance(a, np.ndarray) and isinstance(b, np.ndarray):
        if a.shape != b.shape or not np.array_equal(a, b, equal_nan=True):
            out.append(path)
    elif isinstance(a, float) and isinstance(b, float):
        if a != b and not (a != a and b != b):
            out.append(path)


def body_advance(env):
    """The statement itself on a real Reactor (enumeration, no symbolic dimension): advancing one assembly by one step through
    the real Reactor._calculate_asm_temperatures leaves every number reachable from every other assembly (fields, pin
    temperatures, peaks, balances, material state, correlated parameters) bit-for-bit unchanged."""
    d = tempfile.mkdtemp(prefix='dassh-verif-c06.')
    try:
        sub = ()
        mats = ()
        if env.params.get('pin'):
            mats = ['[[cladmat]]', '    thermal_conductivity = 21.5', '[[gapmat]]', '    thermal_conductivity = 0.35']
            sub = ['[[[FuelModel]]]', '    gap_thickness = 0.00004', '    clad_material = cladmat', '    gap_material = gapmat',
                   '    r_frac = 0.0, 0.5', '    pu_frac = 0.2, 0.1', '    zr_frac = 0.1, 0.1', '    porosity = 0.25, 0.1']
        asms = {'fuel': geninp.default_asm(2, axial=[('lower', 0.0, 0.01, 0.3)] if env.params.get('unrodded') else None, lowfid=None,
                                           subsections=sub),
                'other': geninp.default_asm(3, P=0.0052, D=0.0042, Dw=0.0008, subsections=sub)}
        inp = geninp.write_case(d, asms, [('fuel', 1, 1, 'FLOWRATE=0.5'), ('other', 2, 1, 'FLOWRATE=0.45'), ('fuel', 2, 2, 'FLOWRATE=0.4'),
                                          ('fuel', 2, 4, 'DELTA_TEMP=120.0')],
                                gap_model=env.params.get('gap_model', 'flow'), coolant='sodium', materials_extra=mats, core_len=0.05)
        r = dassh.Reactor(dassh.DASSH_Input(inp), path=os.path.join(d, 'out'), write_output=False)
        r._data_setup()
        r._data_open()
        r.axial_step0()
        nstep = 0
        for step in (1, 2):
            z, dz = r.z[step], r.dz[step - 1]
            for i, asm in enumerate(r.assemblies):
                before = [_snapshot(a) for a in r.assemblies]
                core_before = _snapshot(r.core)
                r._calculate_asm_temperatures(asm, i, z, dz, False)
                nstep += 1
                own = []
                _diff(before[i], _snapshot(asm), 'assembly[%d]' % i, own)
                env.holds('step %d: advancing assembly %d changes that assembly' % (step, i), bool(own))
                for j, other in enumerate(r.assemblies):
                    if j == i:
                        continue
                    ch = []
                    _diff(before[j], _snapshot(other), 'assembly[%d]' % j, ch)
                    env.holds('step %d: advancing assembly %d leaves assembly %d unchanged%s' % (step, i, j, '' if not ch else ': changed ' + ', '.join(ch[:3])),
                              not ch, key='advancing_one_assembly_changed_another')
                ch = []
                _diff(core_before, _snapshot(r.core), 'core', ch)
                env.holds('step %d: advancing assembly %d leaves the gap state unchanged%s' % (step, i, '' if not ch else ': changed ' + ', '.join(ch[:3])),
                          not ch, key='advancing_one_assembly_changed_another')
            if r.core.model is not None:
                t_duct = np.array([dassh.mesh_functions.map_across_gap(a.duct_outer_surf_temp, a.active_region._map['duct2gap']) for a in r.assemblies])
                r.core.calculate_gap_temperatures(dz, t_duct)
        try:
            r._data_close()
        except (AttributeError, KeyError):
            pass
    finally:
        shutil.rmtree(d, ignore_errors=True)


def _asm_state(asm):
    out = {'flow_rate': float(asm.flow_rate)}
    for ri, reg in enumerate(asm.region):
        for nm in STATEFUL + ['flow_rate', 'int_flow_rate', 'byp_flow_rate', 'sc_mfr', '_mratio']:
            if hasattr(reg, nm):
                out['region[%d].%s' % (ri, nm)] = _snapshot(getattr(reg, nm))
    return out


def body_twin(env):
    """Stand-alone twin (enumeration, no symbolic dimension): every assembly of a real multi-assembly Reactor starts the sweep
    in the state, and makes the first steps to the fields, of the same assembly (same type, power, boundary condition) set up
    alone in its own Reactor -- the set-up of the other positions (their boundary-condition estimates, clones, mesh
    requirements) leaves nothing behind in it.  Temperature-dependent coolant; adiabatic outer wall."""
    bcs = env.params['bcs']
    built = []
    for assign in [[('fuel', *pos, bc) for pos, bc in zip(((1, 1), (2, 1), (2, 2), (2, 3), (2, 4)), bcs)]] + [[('fuel', 1, 1, bc)] for bc in bcs]:
        d = tempfile.mkdtemp(prefix='dassh-verif-c06.')
        try:
            asms = {'fuel': geninp.default_asm(2, axial=[('lower', 0.0, 0.01, 0.3)] if env.params.get('unrodded') else None, lowfid=None)}
            inp = geninp.write_case(d, asms, assign, gap_model='none', coolant='sodium', core_len=0.05, pin_power=lambda k: 1500.0,
                                    setup_lines=('axial_mesh_size = 0.001',))
            built.append(dassh.Reactor(dassh.DASSH_Input(inp), path=os.path.join(d, 'out'), write_output=False))
        finally:
            shutil.rmtree(d, ignore_errors=True)
    X, twins = built[0], built[1:]
    env.holds('one stand-alone twin per assembly', len(twins) == len(X.assemblies))
    for k, asm in enumerate(X.assemblies):
        tw = twins[k].assemblies[0]
        for phase in ('at the start of the sweep', 'after one step', 'after two steps'):
            if phase != 'at the start of the sweep':
                for a_ in (asm, tw):
                    n = a_.duct_outer_surf_temp.shape[0]
                    a_.calculate(0.001, np.ones(n), np.ones(n), adiabatic=True, ebal=True)
            ch = []
            _diff(_asm_state(tw), _asm_state(asm), 'assembly[%d]' % k, ch)
            env.holds('assembly %d (%s) %s: same state as its stand-alone twin%s' % (k, bcs[k], phase, '' if not ch else ': differs in ' + ', '.join(ch[:3])),
                      not ch, key='assembly_differs_from_standalone_twin')


def body_grid_setup(env):
    """Set-up isolation between assembly *types* in the reader: after the real check_spacergrid every type keeps exactly its own
    spacer-grid positions that lie inside its own pin bundle (symbolic positions and bundle bounds; two or three grid-bearing
    types plus one without grids) -- nothing of another type's input ends up in it."""
    import dassh.read_input as ri
    from harness.common import StubSelf
    ntype = env.params['n_types']
    with env.patch([ri]):
        data = {'Setup': {'Units': {'length': 'm'}}, 'Assembly': {}}
        want = {}
        for t in range(ntype):
            lo = env.real('rods_lo_%d' % t, lo=0, hi=1)
            hi = env.real('rods_hi_%d' % t, lo=0, hi=4)
            env.assume(hi > lo)
            zs = [env.real('grid_%d_%d' % (t, j), lo=-1, hi=5) for j in range(2)]
            data['Assembly']['type%d' % t] = {
                'wire_diameter': 0.0, 'pin_pitch': 0.008, 'pin_diameter': 0.006,
                'AxialRegion': {'rods': {'z_lo': lo, 'z_hi': hi}},
                'SpacerGrid': {'corr': None, 'corr_coeff': None, 'loss_coeff': 1.5, 'axial_positions': list(zs), 'solidity': None}}
            want['type%d' % t] = (lo, hi, zs)
        data['Assembly']['plain'] = {'wire_diameter': 0.001, 'pin_pitch': 0.008, 'pin_diameter': 0.006,
                                     'AxialRegion': {'rods': {'z_lo': 0.0, 'z_hi': 1.0}},
                                     'SpacerGrid': {'corr': None, 'corr_coeff': None, 'loss_coeff': None, 'axial_positions': None, 'solidity': None}}
        s_ = StubSelf(_bind=(ri.DASSH_Input, ['check_spacergrid']), data=data)
        s_._log = []
        s_.log = lambda lvl, msg, _s=s_: (_s._log.append((lvl, msg)), (_ for _ in ()).throw(SystemExit(1)) if lvl == 'error' else None)[0]
        try:
            s_.check_spacergrid()
        except SystemExit:
            env.stop()          # a type without any acceptable position: error exit
        for nm, (lo, hi, zs) in want.items():
            kept = data['Assembly'][nm]['SpacerGrid']['axial_positions']
            inside = [(z >= lo) & (z <= hi) if env.mode == 'sym' else (lo <= z <= hi) for z in zs]
            nin = sum(1 for b in inside if bool(b))
            env.holds('%s keeps as many positions as it has inside its own bundle' % nm, len(kept) == nin, key='setup_state_leaks_between_types')
            own = [z for z, b in zip(zs, inside) if bool(b)]
            for j, z in enumerate(kept[:len(own)]):
                env.eq('%s: kept position %d is its own' % (nm, j), z, own[j], key='setup_state_leaks_between_types')
        env.holds('the type without grids is left alone', data['Assembly']['plain']['SpacerGrid']['axial_positions'] is None)


def body_mesh_req(env):
    """Reactor._setup_asm_axial_mesh_req: the step requirement and the wall model chosen for an assembly do not depend on the
    assemblies set up before it.  Universe X: [A, B]; universe Y: [B'] alone (B' = B).  The per-assembly criterion
    dassh.assembly.calculate_min_dz is a stub returning symbolic requirements (one for each wall model), with limiting
    subchannel codes enumerated."""
    import dassh.reactor as rm
    from harness.common import StubSelf
    codeA, codeB = env.params['codes']
    with env.patch([rm]):
        cutoff = env.pos('conv_approx_dz_cutoff', hi=1)
        dzs = {nm: (env.pos('dz_%s_exact' % nm, hi=1), env.pos('dz_%s_approx' % nm, hi=1)) for nm in ('A', 'B')}
        codes = {'A': codeA, 'B': codeB}

        def mk(nm):
            return StubSelf(name=nm, id=0, has_rodded=True, _estimated_T_out=700.0, flow_rate=1.0, total_power=1.0e5,
                            region=[StubSelf(_conv_approx=False), StubSelf(_conv_approx=False)])

        def crit(asm, t_in, t_out, adiabatic):
            approx = asm.region[0]._conv_approx
            return dzs[asm.name][1 if approx else 0], codes[asm.name]
        res = {}
        for uni, names in (('X', ['A', 'B']), ('Y', ['B']), ('Z', ['A', 'A', 'B', 'B'])):
            asms = [mk(nm) for nm in names]
            s_ = StubSelf(assemblies=asms, inlet_temp=600.0, _is_adiabatic=False,
                          _options={'conv_approx': True, 'conv_approx_dz_cutoff': cutoff})
            with env.patch([], extra={(rm.dassh.assembly, 'calculate_min_dz'): crit}):
                rm.Reactor._setup_asm_axial_mesh_req(s_)
            res[uni] = (s_.min_dz['dz'][-1], [reg._conv_approx for reg in asms[-1].region])
            # the requirement recorded for an assembly is the one of the wall model that assembly is left with (identical
            # twins included): a relaxed requirement without the model switch would let the step exceed the real limit
            for i, a_ in enumerate(asms):
                flags = [reg._conv_approx for reg in a_.region]
                env.holds('universe %s assembly %d (%s): all its regions use one wall model' % (uni, i, a_.name), len(set(flags)) == 1)
                env.eq('universe %s assembly %d (%s): recorded requirement = criterion value for the wall model it is left with' % (uni, i, a_.name),
                       s_.min_dz['dz'][i], dzs[a_.name][1 if flags[0] else 0], key='requirement_of_another_wall_model')
        env.eq('assembly B: same step requirement behind assembly A as alone', res['X'][0], res['Y'][0], key='setup_state_leaks_between_assemblies')
        env.holds('assembly B: same wall model behind assembly A as alone', res['X'][1] == res['Y'][1], key='setup_state_leaks_between_assemblies')


def body_asm_bc(env):
    """Reactor._setup_asm_bc: the outlet temperature / flow rate estimated for an assembly does not depend on the positions
    set up before it.  Universe X: positions [A, (empty), B]; universe Y: [B] alone.  The heat balance Q = m cp dT is a stub
    (uninterpreted function of its arguments), powers (also zero) and boundary-condition values are symbolic."""
    import dassh.reactor as rm
    from harness.common import StubSelf
    kindA, kindB, zeroB = env.params['kinds'] + (env.params.get('zero_power_B', False),)
    with env.patch([rm]):
        Tin = env.real('T_inlet', lo=300, hi=900)
        vals = {nm: env.pos('bc_%s' % nm, hi=2000) for nm in ('A', 'B')}
        pw = {'A': env.pos('power_A', hi=1e9), 'B': 0.0 if zeroB else env.nonneg('power_B', hi=1e9)}

        def q(power, t_in, coolant, mfr=None, t_out=None):
            if env.mode == 'sym':
                f = core.uf('QMCDT_' + ('T' if mfr is not None else 'M'), 3)
                return Sym(f(core.toz(power), core.toz(t_in), core.toz(mfr if mfr is not None else t_out)))
            return (t_in + power / (1275.0 * mfr)) if mfr is not None else power / (1275.0 * (t_out - t_in))
        res = {}
        for uni, names in (('X', ['A', None, 'B']), ('Y', ['B'])):
            byp = [[] if nm is None else [nm, (0, 0, i), {('flowrate' if (kindA if nm == 'A' else kindB) == 'flowrate' else 'outlet_temp'): vals[nm]}]
                   for i, nm in enumerate(names)]
            inp = StubSelf(data={'Assignment': {'ByPosition': byp}})
            pp = [[] if nm is None else [None, None, pw[nm], None] for nm in names]
            tmpl = {nm: StubSelf(active_region=StubSelf(coolant=None)) for nm in ('A', 'B')}
            s_ = StubSelf(inlet_temp=Tin, asm_templates=tmpl)
            with env.patch([], extra={(rm.dassh.utils, 'Q_equals_mCdT'): q}):
                To, fr = rm.Reactor._setup_asm_bc(s_, inp, pp)
            res[uni] = (To[-1], fr[-1])
        env.eq('assembly B: same estimated outlet temperature behind assembly A as alone', res['X'][0], res['Y'][0], key='setup_state_leaks_between_assemblies')
        env.eq('assembly B: same flow rate behind assembly A as alone', res['X'][1], res['Y'][1], key='setup_state_leaks_between_assemblies')


def instances(tier):
    inst = []
    kinds = [('rodded', 1), ('rodded', 2), ('simple',), ('6node',)]
    for k in kinds:
        inst.append(dict(label='step[%s]' % '-'.join(map(str, k)), body=body_step, params={'kind': k}, timeout_ms=120000))
        inst.append(dict(label='object-graph[%s]' % '-'.join(map(str, k)), body=body_graph_region, params={'kind': k},
                         check_vacuity=False))
    inst.append(dict(label='object-graph[rodded-1,tracker]', body=body_graph_region, params={'kind': ('rodded', 1), 'tracker': True},
                     check_vacuity=False))
    for codes in (('3-22', '1-111'), ('1-111', '3-22'), ('2-22', '2-12'), ('1-111', '1-111')):
        inst.append(dict(label='mesh-requirement[limiting cells %s then %s]' % codes, body=body_mesh_req, params={'codes': codes}))
    for kinds in (('flowrate', 'flowrate'), ('outlet_temp', 'flowrate'), ('flowrate', 'outlet_temp')):
        for zero in (False, True):
            inst.append(dict(label='boundary-condition-setup[A=%s,B=%s%s]' % (kinds + (',B unpowered' if zero else '',)), body=body_asm_bc,
                             params={'kinds': kinds, 'zero_power_B': zero}))
    inst.append(dict(label='object-graph[reactor,3 assemblies of one type]', body=body_graph_reactor, params={}, check_vacuity=False))
    inst.append(dict(label='object-graph[reactor,3 assemblies with an unrodded region]', body=body_graph_reactor,
                     params={'unrodded': True}, check_vacuity=False))
    for bcs in (('FLOWRATE=0.5', 'DELTA_TEMP=150.0', 'FLOWRATE=0.4', 'OUTLET_TEMP=800.0', 'FLOWRATE=0.3'),
                ('OUTLET_TEMP=820.0', 'FLOWRATE=0.45', 'DELTA_TEMP=90.0', 'FLOWRATE=0.35', 'OUTLET_TEMP=760.0')):
        for unrodded in (False, True):
            inst.append(dict(label='stand-alone-twin[%s,unrodded region=%s]' % ('/'.join(b.split('=')[0] for b in bcs), unrodded), body=body_twin,
                             params={'bcs': bcs, 'unrodded': unrodded}, check_vacuity=False))
    for nt in (2, 3):
        inst.append(dict(label='spacer-grid-setup[%d grid-bearing types]' % nt, body=body_grid_setup, params={'n_types': nt}, max_paths=4000, max_depth=60))
    for pin in (True, False):
        for unrodded in (False, True):
            inst.append(dict(label='advance-one[reactor,4 assemblies of 2 types,pin model=%s,unrodded region=%s]' % (pin, unrodded), body=body_advance,
                             params={'pin': pin, 'unrodded': unrodded}, check_vacuity=False))
    return inst


def main():
    a = runner.main_args()
    inst = runner.select(instances(a.tier), a.only)
    runner.run_check(
        'C06', inst, a.tier,
        explanation=('Self-composition: the explicit step of an assembly cloned (by the real clone code) next to a sibling that '
                     'updated its material last is compared by the solver with the step of the same assembly cloned alone; real '
                     'Material objects with property tables as uninterpreted functions of temperature.  The object graph produced '
                     'by the real clone code and by a real Reactor is checked for shared stateful objects (decided concretely; '
                     'it is the precondition that interprets the solver result).'),
        bounds={'region kinds': 'rodded 2-ring single/double duct, simple, 6-node', 'schedule': 'A;B then A  vs  A\' then A\'',
                'assemblies per type in the reactor graph': 3},
        outside=['schedules longer than one interleaving (the shared object has no memory beyond its last update)',
                 'pin-model materials', 'correlated-parameter caches of low-fidelity regions (stubbed)'],
        level_assumptions=['mean temperatures of the two assemblies differ by at least 1 K; property functions positive'])


if __name__ == '__main__':
    main()
