"""Shared helpers for the harnesses."""
import logging
import sys

logging.disable(logging.CRITICAL)


class Rejected(Exception):
    """Raised by stub loggers for log('error'): DASSH's error = log + SystemExit."""


class StubSelf:
    """Stand-in for `self` of a method that only needs a few attributes.

    `log('error', ...)` raises SystemExit exactly like LoggedClass.log does.
    Attribute reads of anything the harness did not provide raise AttributeError,
    which surfaces as a harness error (so a method that starts to depend on more
    state makes the obligation inconclusive instead of silently unchecked).
    """

    def __init__(self, _bind=None, **kw):
        self._log = []
        for k, v in kw.items():
            setattr(self, k, v)
        if _bind:
            import types
            cls, names = _bind
            for n in names:
                setattr(self, n, types.MethodType(getattr(cls, n), self))

    def log(self, level, msg, indent=None):
        self._log.append((level, msg))
        if level.lower() in ('error', 'critical'):
            sys.exit(1)


def fmtnum(x):
    try:
        return '%.6g' % float(x)
    except Exception:
        return str(x)
