"""C02 -- inter-assembly heat exchange is conservative; core balance closes.

Real code executed symbolically: Core.calculate_gap_temperatures, _update_energy_balance,
_flow_model, avg_coolant_gap_temp, adjacent_coolant_gap_temp / _htc; Reactor.axial_step,
Reactor._calculate_asm_temperatures; mesh_functions.map_across_gap; the duct<->gap maps are the
ones the real Reactor set up (reactor._setup_gap_mesh_params).  Cores are built by the real
Reactor from generated inputs (enumerated layouts); their state is symbolic.
"""
import copy

import numpy as np

from symx import runner, core
from harness.common import StubSelf
from harness import symcore as SC

import dassh.core as cm
import dassh.reactor as rm
import dassh.mesh_functions as mf

MODS = [cm, rm, mf]


def _sum(xs):
    t = 0.0
    for x in xs:
        t = t + x
    return t


def body_gap(env):
    """Gap side: enthalpy rise of the gap coolant = heat credited from all adjacent duct cells;
    the credit per duct cell is film flux * contact length * dz; conduction only moves heat."""
    r = SC.build_reactor(env.params['layout'])
    with env.patch(MODS):
        c = SC.sym_core(env, r)
        adj = r.core._asm_sc_adj
        obj = env.mode == 'sym'
        td = np.full(adj.shape, 0.0, dtype=object) if obj else np.zeros(adj.shape)
        for a in range(adj.shape[0]):
            for i in range(adj.shape[1]):
                if adj[a, i] > 0:
                    td[a, i] = env.real('Tduct_%d_%d' % (a, i), lo=200, hi=3000)
        dz = env.pos('dz', hi=1)
        T0 = c.coolant_gap_temp.copy()
        c.calculate_gap_temperatures(dz, td)
        cp = c.gap_coolant.heat_capacity
        k = c.gap_coolant.thermal_conductivity
        sadj = r.core._sc_adj
        credits = {f: 0.0 for f in range(c.n_sc)}
        for a in range(adj.shape[0]):
            for i in range(adj.shape[1]):
                if adj[a, i] > 0:
                    f = adj[a, i] - 1
                    credits[f] = credits[f] + c.ebal['asm'][a, i]
                    env.eq('credit of assembly %d duct cell %d = film flux * contact length * dz' % (a, i), c.ebal['asm'][a, i],
                           c.coolant_gap_params['htc'][f] * c.gap_params['asm wp'][a, i] * dz * (td[a, i] - T0[f]), tol=1e-9)
                else:
                    env.eq('padding entry (%d,%d) of the tally stays zero' % (a, i), c.ebal['asm'][a, i], 0.0)
        # cell by cell: enthalpy rise = credits from the adjacent duct cells + conduction exchange with the
        # neighbouring gap cells; the exchange terms are pairwise antisymmetric (same resistance both ways),
        # so that summed over the gap the enthalpy rise equals the heat credited (conduction only moves heat)
        for f in range(c.n_sc):
            exch = 0.0
            for j in range(3):
                nb = sadj[f, j] - 1
                if nb >= 0:
                    exch = exch + c._Rcond[f, j] * (T0[nb] - T0[f])
            env.eq('gap cell %d: enthalpy rise = credited heat + conduction exchange' % (f + 1),
                   c._sc_mfr[f] * cp * (c.coolant_gap_temp[f] - T0[f]), credits[f] + dz * k * exch, tol=1e-8, key='gap_balance')
            for j in range(3):
                nb = sadj[f, j] - 1
                if nb > f:
                    back = [jj for jj in range(3) if sadj[nb, jj] - 1 == f]
                    env.holds('gap cells %d,%d are mutual neighbours' % (f + 1, nb + 1), len(back) == 1)
                    if back:
                        env.eq('conduction exchange between gap cells %d and %d is antisymmetric' % (f + 1, nb + 1),
                               c._Rcond[f, j] * (T0[nb] - T0[f]), 0.0 - c._Rcond[nb, back[0]] * (T0[f] - T0[nb]), tol=1e-9,
                               key='gap_conduction_not_antisymmetric')


def _widths(reg):
    xb = np.asarray(reg.calculate_xbnds(), dtype=float)
    w = xb[1:] - xb[:-1]
    return list(w[1:-1]) + [w[-1] + w[0]]


def body_asm_side(env):
    """Assembly side: the heat that leaves assembly a through its outer duct surface, computed on its
    own duct mesh with the h-weighted gap temperature it was given, equals the heat the gap tallies for
    it on the gap mesh (dz = 1: both sides are proportional to dz).  The maps are the constructed float
    matrices, so the claim carries a 1e-9 relative tolerance and the film coefficients are concrete."""
    r = SC.build_reactor(env.params['layout'])
    with env.patch(MODS):
        c = SC.sym_core(env, r, sym_wp=False)     # concrete maps need the concrete contact lengths
        n = c.n_sc
        c.coolant_gap_params['htc'] = np.array([3.0e4 + 137.0 * i for i in range(n)])
        env.stub('film coefficients concrete (distinct per gap cell) so that the tolerance query is linear in the temperatures')
        rec = {}
        rec0 = {}
        asms = []
        Ts = []
        events = []
        for a, asm in enumerate(r.assemblies):
            reg = asm.active_region
            ncell = reg.temp['duct_surf'].shape[-1]
            ts = np.empty(ncell, dtype=object)
            for k in range(ncell):
                ts[k] = env.real('Tsurf_%d_%d' % (a, k), lo=200, hi=3000)
            if env.mode == 'replay':
                ts = ts.astype(float)
            Ts.append(ts)

            def calc(dz_, gap_temp, gap_htc, adiabatic=False, ebal=False, _a=a):
                rec[_a] = (gap_temp, gap_htc)

            def step0(gap_temp, gap_htc, adiabatic=False, _a=a):
                rec0[_a] = (gap_temp, gap_htc)
            st = StubSelf(duct_outer_surf_temp=ts, active_region=StubSelf(_map=reg._map), calculate=calc, step0=step0,
                          check_region_update=lambda z: False, write=lambda *x, **k: None)
            if env.params.get('region_change') and a == 0:
                # assembly 0 enters a new axial region after this step: the wall of the new region (other temperatures) must
                # not be what the gap is credited with for *this* step, and the new region is activated with the new gap level
                ts_new = np.array([env.real('Tsurf_newregion_%d' % k, lo=200, hi=3000) for k in range(ncell)], dtype=object)
                if env.mode == 'replay':
                    ts_new = ts_new.astype(float)

                def upd(z_, gap_temp, gap_htc, adiabatic=False, _st=st, _new=ts_new):
                    events.append(('update_region', np.array(gap_temp, dtype=object if env.mode == 'sym' else float)))
                    _st.duct_outer_surf_temp = _new
                st.check_region_update = lambda z: True
                st.update_region = upd
            asms.append(st)
        r2 = copy.copy(r)
        r2.core = c
        r2.assemblies = asms
        r2._is_adiabatic = False
        r2._options = dict(r._options)
        r2._options['dump'] = dict(r._options['dump'], any=False)
        r2._options['ebal'] = True
        r2.z = np.array([0.0, 1.0, 2.0])
        rm.Reactor.axial_step0(r2)            # duct temperatures before the sweep: same hand-over of the gap state
        real_gap = c.calculate_gap_temperatures

        def gap_step(*a_, **k_):
            events.append(('gap-step', None))
            return real_gap(*a_, **k_)
        c.calculate_gap_temperatures = gap_step
        rm.Reactor.axial_step(r2, 1.0, 1.0, 0)
        if env.params.get('region_change'):
            env.holds('the gap is advanced with the walls of the regions that made the step; the next region is activated afterwards',
                      [e[0] for e in events] == ['gap-step', 'update_region'], key='region_change_before_gap_step')
            if events and events[-1][0] == 'update_region':
                new_gap = c.adjacent_coolant_gap_temp(0)
                for k in range(len(new_gap)):
                    env.eq('the new region of assembly 0 is activated with the gap temperatures of the new level (gap cell %d)' % k,
                           events[-1][1][k], new_gap[k], key='region_change_before_gap_step')
        for a in rec:
            for k in range(len(rec[a][0])):
                env.eq('assembly %d cell %d: axial_step0 hands over the same gap temperature as the first step' % (a, k), rec0[a][0][k], rec[a][0][k],
                       tol=1e-12, key='step0_handover_differs')
                env.eq('assembly %d cell %d: axial_step0 hands over the same gap film coefficient as the first step' % (a, k), rec0[a][1][k], rec[a][1][k],
                       tol=1e-12, key='step0_handover_differs')
        adj = r.core._asm_sc_adj
        for a, asm in enumerate(r.assemblies):
            reg = asm.active_region
            w = _widths(reg)
            gap_temp, gap_htc = rec[a]
            out_a = _sum(w[k] * gap_htc[k] * (Ts[a][k] - gap_temp[k]) for k in range(len(w)))
            cred = _sum(c.ebal['asm'][a, i] for i in range(adj.shape[1]) if adj[a, i] > 0)
            scale = float(sum(w[k] * float(gap_htc[k]) for k in range(len(w)))) * 3000.0
            tol = 1e-9 * scale
            env.le('assembly %d: heat leaving through its outer duct = heat credited to its gap cells (hi)' % a, out_a - cred, tol,
                   key='asm_gap_exchange')
            env.ge('assembly %d: heat leaving through its outer duct = heat credited to its gap cells (lo)' % a, out_a - cred, -tol,
                   key='asm_gap_exchange')
            for k in range(len(w)):
                lo = core.sym_min if env.mode == 'sym' else min
            # the gap temperature handed to the assembly is an average of the adjacent gap cells
        for a in rec:
            gt, gh = rec[a]
            for k in range(len(gt)):
                env.gt('assembly %d: mapped gap film coefficient positive (cell %d)' % (a, k), gh[k], 0.0)


def body_adiabatic(env):
    """gap model None (adiabatic): the gap state is untouched by a step."""
    r = SC.build_reactor(env.params['layout'])
    with env.patch(MODS):
        c = SC.sym_core(env, r)
        c.model = None
        adj = r.core._asm_sc_adj
        td = np.full(adj.shape, 0.0, dtype=object) if env.mode == 'sym' else np.zeros(adj.shape)
        for a in range(adj.shape[0]):
            for i in range(adj.shape[1]):
                if adj[a, i] > 0:
                    td[a, i] = env.real('Tduct_%d_%d' % (a, i), lo=200, hi=3000)
        T0 = c.coolant_gap_temp.copy()
        r2 = copy.copy(r)
        r2.core = c
        got = {}

        def calc(dz_, gap_temp, gap_htc, adiabatic=False, ebal=False):
            got['adiabatic'] = adiabatic
            got['t'] = gap_temp
        ncell = r.assemblies[0].active_region.temp['duct_surf'].shape[-1]
        asm = StubSelf(duct_outer_surf_temp=np.zeros(ncell), calculate=calc, active_region=r.assemblies[0].active_region,
                       check_region_update=lambda z: False, write=lambda *x, **k: None)
        r2.assemblies = [asm]
        r2._is_adiabatic = True
        r2._options = dict(r._options)
        r2._options['dump'] = dict(r._options['dump'], any=False)
        r2.z = np.array([0.0, 1.0, 2.0])
        rm.Reactor.axial_step(r2, 1.0, 1.0, 0)
        env.holds('adiabatic option passed on to the assembly', got.get('adiabatic') is True)
        for f in range(c.n_sc):
            env.eq('adiabatic: gap cell %d untouched' % f, c.coolant_gap_temp[f], T0[f])


def body_outer_surface(env):
    """The duct temperature an assembly offers to the gap (Assembly.duct_outer_surf_temp, read by Reactor.axial_step) is the
    outer surface of its outermost duct, for 1-3 ducts (the stub assemblies of the other instances carry that vector directly)."""
    import dassh.assembly as am
    nduct = env.params['n_duct']
    nd = 12
    with env.patch(MODS + [am]):
        ds = np.empty((nduct, 2, nd), dtype=object)
        for w in range(nduct):
            for s_ in range(2):
                for c in range(nd):
                    ds[w, s_, c] = env.real('Tsurf_%d_%d_%d' % (w, s_, c), lo=200, hi=3000)
        if env.mode == 'replay':
            ds = ds.astype(float)
        asm = StubSelf(active_region=StubSelf(temp={'duct_surf': ds}))
        got = am.Assembly.duct_outer_surf_temp.fget(asm)
        env.holds('one value per outer duct cell', len(got) == nd)
        for c in range(nd):
            env.eq('cell %d: the temperature offered to the gap is the outer surface of the outermost duct' % c, got[c], ds[nduct - 1, 1, c],
                   key='wrong_duct_surface_offered_to_gap')


def body_update_region(env):
    """Assembly.update_region (region change during the sweep): the new region is activated with the gap film coefficient
    and the film-weighted gap temperature mapped by the *new* region's own gap->duct map; with the adiabatic option the gap
    plays no role."""
    import dassh.assembly as am
    adiabatic = env.params['adiabatic']
    with env.patch(MODS + [am]):
        ng = 4
        tg = np.empty(ng, dtype=object)
        hg = np.empty(ng, dtype=object)
        for i in range(ng):
            tg[i] = env.real('Tgap%d' % i, lo=200, hi=3000)
            hg[i] = env.pos('hgap%d' % i, hi=1e7)
        if env.mode == 'replay':
            tg, hg = tg.astype(float), hg.astype(float)
        m_old = np.array([[0.5, 0.5, 0.0, 0.0], [0.0, 0.0, 0.5, 0.5]])
        m_new = np.array([[0.75, 0.25, 0.0, 0.0], [0.0, 0.5, 0.5, 0.0], [0.0, 0.0, 0.125, 0.875]])
        got = {}

        def act(prev, t, h, ad):
            got['args'] = (prev, t, h, ad)
        regs = [StubSelf(_map={'gap2duct': m_old}, pressure_drop=0.0), StubSelf(_map={'gap2duct': m_new}, pressure_drop=0.0, activate=act)]
        from harness.c14_pdrop import _Asm
        a = _Asm(_bind=(am.Assembly, ['update_region', '_identify_active_region']), _pressure_drop=0.0, region=regs, _active_region_idx=0,
                 region_bnd=[0.0, 1.0, 2.0], duct_outer_surf_temp=np.zeros(3))
        a.update_region(1.25, tg, hg, adiabatic=adiabatic)
        env.holds('the new region is activated with the old region as its predecessor', got.get('args') is not None and got['args'][0] is regs[0]
                  and got['args'][3] is adiabatic)
        if got.get('args') is None:
            env.stop()
        _p, t, h, _ad = got['args']
        if adiabatic:
            env.holds('adiabatic: dummy gap values of the right length', len(t) == 3 and len(h) == 3)
            return
        for c in range(3):
            hw = _sum(m_new[c, f] * hg[f] for f in range(ng))
            tw = _sum(m_new[c, f] * hg[f] * tg[f] for f in range(ng))
            env.eq('cell %d: film coefficient mapped with the new region\'s own map' % c, h[c], hw, tol=1e-10, key='region_change_gap_mapping')
            env.eq('cell %d: gap temperature = film-weighted mean over the new region\'s own map' % c, t[c] * hw, tw, tol=1e-10,
                   key='region_change_gap_mapping')


def instances(tier):
    inst = []
    lays = ['one-a2', 'two-a2-a3', 'three-a2-a3-ur', 'three-a3-dd-u6', 'ring-no-centre', 'three-a3-b3-a2'] + \
        (['seven-mixed', 'six-hole'] if tier == 'thorough' else [])
    for l in lays:
        inst.append(dict(label='gap-step[%s]' % l, body=body_gap, params={'layout': l}, timeout_ms=240000))
        inst.append(dict(label='assembly-side[%s]' % l, body=body_asm_side, params={'layout': l}, timeout_ms=240000))
    for l in ('two-a2-a3', 'three-a3-dd-u6'):
        inst.append(dict(label='assembly-side[%s,assembly 0 changes region after the step]' % l, body=body_asm_side,
                         params={'layout': l, 'region_change': True}, timeout_ms=240000))
    inst.append(dict(label='adiabatic[one-a2]', body=body_adiabatic, params={'layout': 'one-a2'}))
    for ad in (False, True):
        inst.append(dict(label='region-change[adiabatic=%s]' % ad, body=body_update_region, params={'adiabatic': ad}))
    for nduct in (1, 2, 3):
        inst.append(dict(label='outer-surface[ducts=%d]' % nduct, body=body_outer_surface, params={'n_duct': nduct}))
    return inst


def main():
    a = runner.main_args()
    inst = runner.select(instances(a.tier), a.only)
    runner.run_check(
        'C02', inst, a.tier,
        explanation=('Cores built by the real Reactor (enumerated layouts with unequal meshes, unrodded and double-duct assemblies, an '
                     'empty centre) with symbolic state: one real Core.calculate_gap_temperatures step gives gap enthalpy rise = sum of '
                     'the per-duct-cell credits (identity), each credit = film flux * contact length * dz; one real Reactor.axial_step '
                     'with symbolic outer-duct surface temperatures gives heat leaving each assembly on its own mesh = heat credited on '
                     'the gap mesh (1e-9 relative, linear real arithmetic).  Whole-sweep closure is the telescoping sum of these with '
                     'C01 and C11.'),
        bounds={'layouts': '5 (quick) / 7', 'gap model': 'flow (and none for the adiabatic claim)', 'dz': 'symbolic (gap side) / 1 (assembly side)'},
        outside=['no-flow and duct-average gap models (C04)', 'lag of temperature-dependent film coefficients between the assembly and the gap side',
                 'six-node one-level lag (the region update itself is C01)', 'AssemblyEnergyBalanceTable formatting', 'layouts beyond those listed'],
        level_assumptions=['gap conduction resistances symmetric (C09)', 'duct<->gap maps as constructed by the real Reactor (floats): 1e-9 relative tolerance on the assembly-side claim'])


if __name__ == '__main__':
    main()
