"""C13 -- pin radial temperatures are ordered and obey radial heat conduction.

Real code executed symbolically (dassh/pin_model.py): PinModel.__init__ (geometry, concrete),
calculate_temperatures, calc_clad_temps, calc_fuel_surf_temp, calc_fuel_temps, _fuel_cond.
Conductivities of clad, gap and every fuel zone are uninterpreted positive functions of
temperature; linear power, coolant temperature, film coefficient and step are solver variables.
The conductivity iterations fork on their convergence test; paths needing more iterations than
the fork-depth budget are cut (outside the unrolling bound).
"""
import numpy as np
import z3

from symx import runner, core, fixtures
from symx.core import Sym
from harness.common import StubSelf

import dassh.pin_model as pm
from dassh.material import Material

MODS = [pm]


class _UFMat:
    """Material stand-in: thermal conductivity is an uninterpreted positive function of T."""

    def __init__(self, name, env):
        self.name = name
        self.env = env
        self.thermal_conductivity = None
        self.calls = []          # (temperature, conductivity, positivity constraint) of every evaluation, in order
        self.last_cond = None
        self.conds = None
        self.idx = 0             # which pin of the vector the log follows

    def k(self, T):
        out = self._k(T)
        if isinstance(T, np.ndarray):
            self.calls.append((np.ravel(T)[self.idx], np.ravel(out)[self.idx], self.conds[self.idx] if self.conds else self.last_cond))
        else:
            self.calls.append((T, out, self.last_cond))
        return out

    def _k(self, T):
        if self.env.mode == 'sym':
            if isinstance(T, np.ndarray):
                out = np.empty(T.shape, dtype=object)
                self.conds = []
                for i, x in np.ndenumerate(T):
                    out[i] = self._k(x)
                    self.conds.append(self.last_cond)
                return out
            v = core.uf('K_' + self.name)(core.toz(T))
            self.last_cond = v > 0
            core.CTX.side.append(self.last_cond)
            return Sym(v)
        # replay: a concrete positive, temperature dependent conductivity
        # replay: every material has its own conductivity function (a zone mix-up must be visible concretely)
        base = {'clad': 22.0, 'gap': 60.0}.get(self.name, 15.0 + 4.0 * int(self.name[4:]) if self.name.startswith('fuel') else 15.0)
        return base * (1.0 + 2e-4 * (np.asarray(T, dtype=float) - 700.0)) + 0.0 * np.asarray(T, dtype=float)

    def update(self, T):
        self.thermal_conductivity = self.k(T)


def _model(env, gap, r_frac):
    clad = Material('ht9')
    params = {'htc_params_clad': [0.023, 0.8, 0.4, 7.0], 'gap_thickness': gap, 'r_frac': list(r_frac),
              'pin_material': [None] * len(r_frac)}
    gm = Material('sodium') if gap > 0 else None
    m = pm.PinModel(0.006, 0.0005, clad, pin_params=params, gap_mat=gm)
    cm_ = _UFMat('clad', env)
    m.clad['k'] = cm_.k
    m._h_clad = cm_
    m._h_gap = None
    if gap > 0:
        g = _UFMat('gap', env)
        m.gap['k'] = g.k
        m._h_gap = g
    m.fuel['mat'] = [_UFMat('fuel%d' % i, env) for i in range(len(r_frac))]
    return m


def _k_used(calls):
    """Conductivity of the last iterate: the first evaluation alone if the iteration was not entered, else the
    mean of the first (outer temperature) and the last (previous inner iterate) evaluation."""
    if len(calls) == 1:
        return calls[0][1]
    return 0.5 * (calls[-1][1] + calls[0][1])


def body_pin(env):
    gap = env.params['gap']
    r_frac = env.params['r_frac']
    zero = env.params.get('zero_power', False)
    if env.mode == 'sym':
        PI = Sym(z3.Real('PI'))
        ov = {'pi': PI}
    else:
        PI, ov = np.pi, {}
    with env.patch(MODS, overrides=ov):
        if env.mode == 'sym':
            pi_lo = PI.e > z3.RealVal('3.14159')
            core.CTX.assumptions += [pi_lo, PI.e < z3.RealVal('3.1416')]
        m = _model(env, gap, r_frac)
        q = 0.0 if zero else env.nonneg('q_lin', hi=2e5)
        Tc = env.real('T_cool', lo=300, hi=1500)
        h = env.pos('htc', hi=1e7)
        closed = env.params.get('closed_forms', False)
        dz = 0.0125 if closed else env.pos('dz', hi=1)
        npin = env.params.get('npin', 1)
        # with two pins the pin under test is the second one; the first is an independent symbolic pin (a result
        # written from the first pin into every row would pass a one-pin harness)
        extra = []
        if npin == 2:
            extra = [(0.0 if (zero or env.params.get('other_unpowered')) else env.nonneg('q_lin_other', hi=2e5)), env.real('T_cool_other', lo=300, hi=1500), env.pos('htc_other', hi=1e7)]
            for mat in [m._h_clad, m._h_gap] + list(m.fuel['mat']):
                if mat is not None:
                    mat.idx = 1

        def one(x, j):
            v = ([extra[j]] if extra else []) + [x]
            return np.array(v, dtype=object) if env.mode == 'sym' else np.array([float(y) for y in v])
        try:
            t = m.calculate_temperatures(one(q, 0), one(Tc, 1), one(h, 2), dz, atol=1e-3)
        except SystemExit:
            env.stop()        # iteration limit reached: error exit (outside the unrolling bound)
        t = t[npin - 1]
        names = ['coolant', 'clad OD', 'clad MW', 'clad ID', 'fuel surface', 'fuel centre']
        env.eq('column 0 is the local coolant temperature', t[0], Tc)
        if zero:
            for i in range(1, 6):
                env.eq('zero power: %s = coolant temperature' % names[i], t[i], Tc, tol=1e-9)
            return
        for i in range(5):
            env.ge('%s <= %s' % (names[i], names[i + 1]), t[i + 1], t[i], key='pin_temperatures_not_ordered')
        # the conductivity iteration of the clad has converged *for this pin* (whatever the other pins of the call do): the inner-wall
        # temperature reported is within the tolerance of the temperature the clad conductivity was last evaluated at
        lastT = m._h_clad.calls[-1][0]
        if not closed:      # (the closed-form instances carry enough non-linear claims already; same code path)
          env.holds('clad inner-wall temperature within the iteration tolerance (1e-3 K) of the last conductivity evaluation point of this pin',
                    env.land(t[3] - lastT <= 1e-3, lastT - t[3] <= 1e-3), key='clad_iteration_not_converged_for_this_pin')
        # film drop: closed form q' / (2 pi r_co h)
        r2 = float(m.clad['r'][2])
        env.eq('film drop = q\' / (2 pi r_clad h)', (t[1] - t[0]) * (2 * PI * r2) * h, q, tol=1e-7, scale=1.0)
        # clad: mid-wall and inner-wall drops are in the ratio of the logarithms (same conductivity)
        l_mw, l_id = float(m.clad['ln_r2r_2node'][1]), float(m.clad['ln_r2r'])
        env.eq('clad: (MW - OD) / ln(r_o/r_m) = (ID - OD) / ln(r_o/r_i) (one conductivity for the wall)',
               (t[2] - t[1]) * l_id, (t[3] - t[1]) * l_mw, tol=1e-7)
        if gap == 0:
            env.eq('no gap: fuel surface = clad inner wall', t[4], t[3])
        if not closed:
            return
        # ---- closed forms with the conductivity the last iterate was computed with (every evaluation of the
        # conductivity functions is logged; radii are read from the model, logarithms and areas recomputed here)
        import math
        rc = [float(x) for x in m.clad['r']]
        kc = _k_used(m._h_clad.calls)
        env.eq("clad: (ID - OD) * 2 pi k = q' ln(r_o / r_i)", (t[3] - t[1]) * (2 * PI) * kc, q * math.log(rc[2] / rc[0]), tol=1e-7, scale=1.0,
               key='clad_drop')
        env.eq("clad: (MW - OD) * 2 pi k = q' ln(r_o / r_m)", (t[2] - t[1]) * (2 * PI) * kc, q * math.log(rc[2] / rc[1]), tol=1e-7, scale=1.0,
               key='clad_drop')
        fr = np.asarray(m.fuel['r'], dtype=float)
        Rf, a_hole = float(fr[-1, 1]), float(fr[0, 0])
        env.holds('fuel zones are nested from the hole to the pellet surface',
                  all(abs(fr[i, 1] - fr[i + 1, 0]) < 1e-15 for i in range(len(fr) - 1)) and all(fr[:, 1] > fr[:, 0]))
        env.holds('pellet surface = clad inner radius - gap', abs(Rf - (rc[0] - gap)) < 1e-15)
        if gap > 0:
            gc = m._h_gap.calls
            kg = _k_used(gc)
            SB = 5.670374419e-8
            env.holds('Stefan-Boltzmann constant', abs(pm._SBCONST - SB) < 1e-4 * SB)
            rad = 0.0
            if len(gc) > 1:
                Tp = gc[-1][0]          # previous iterate: the radiation term is evaluated there
                rad = m.fuel['e'] * pm._SBCONST * (Tp * Tp * Tp * Tp - t[3] * t[3] * t[3] * t[3])
            lhs = ((t[4] - t[3]) * kg / gap + rad) * (2 * PI * Rf)
            nm = "gap: conduction + radiation across the gap = q' / (2 pi r_fuel)"
            if env.mode == 'sym':
                # degree-4 identity in the clad inner temperature and the previous iterate: proved with those two
                # temperatures and the conductivity evaluations as atoms (abstraction: sound for proofs)
                ks = [c[1] for c in (gc[0], gc[-1])]
                env.derive(nm, lhs == q, hyps=[pi_lo] + [c[2] for c in (gc[0], gc[-1])], atoms=[t[3]] + ([gc[-1][0]] if len(gc) > 1 else []) + ks,
                           key='gap_drop')
            else:
                env.eq(nm, lhs, q, tol=1e-6, scale=1.0, key='gap_drop')
        # fuel: sum of the shell drops, each = q''' (r_o^2 - r_i^2) / (4 k), q''' = q' / (pi (R^2 - a^2))
        A_f = PI * (Rf ** 2) - PI * (a_hole ** 2)      # same float squares as the model: the solver claim is exact
        tot = 0.0
        for i in reversed(range(len(fr))):
            ki = _k_used(m.fuel['mat'][i].calls)
            tot = tot + (q / A_f) * (0.25 * (float(fr[i, 1]) ** 2 - float(fr[i, 0]) ** 2)) / ki
        env.eq("fuel: centre - surface = sum over shells of q''' (r_o^2 - r_i^2) / (4 k_shell)", t[5] - t[4], tot, tol=1e-7, scale=1.0,
               key='fuel_drop')


def body_coolant_avg(env):
    """Pin-adjacent coolant temperature: weights 1/6, 1/4, 1/6 over the adjacent subchannels sum to one
    (RoddedRegion.calculate_pin_temperatures, first part)."""
    import dassh.region_rodded as rrm
    n = env.params['n_ring']
    with env.patch([rrm]):
        r = fixtures.make_rodded(n, 1)
        nsc = r.subchannel.n_sc['coolant']['total']
        T = np.empty(nsc, dtype=object)
        for i in range(nsc):
            T[i] = env.real('T%d' % i, lo=300, hi=1500)
        if env.mode == 'replay':
            T = T.astype(float)
        import fractions
        q = [fractions.Fraction(1, 6), fractions.Fraction(1, 4), fractions.Fraction(1, 6)]
        qp = np.array([q[ty] for ty in r.subchannel.type[:nsc]], dtype=object) if env.mode == 'sym' else r._q_p2sc
        got = {}

        class PMstub:
            htc_params = [0.023, 0.8, 0.4, 7.0]

            def calculate_temperatures(self, q_lin, Tc_avg, htc, dz):
                got['Tc'] = Tc_avg
                return np.zeros((r.n_pin, 6))
        r.pin_model = PMstub()
        r.pin_temps = np.zeros((r.n_pin, 9))
        r._q_p2sc = qp
        r.temp = dict(r.temp)
        r.temp['coolant_int'] = T
        r.corr = dict(r.corr)
        r.corr['pin_nu'] = lambda *a, **k: 5.0
        try:
            r.calculate_pin_temperatures(0.01, np.ones(r.n_pin))
        except Exception as ex:
            env.fail('calculate_pin_temperatures runs on symbolic subchannel temperatures', why=repr(ex)[:150], core=False)
            env.stop()
        Tc = got['Tc']
        adj = r.subchannel.pin_adj
        for p in range(r.n_pin):
            expect = 0.0
            for s_ in adj[p]:
                if s_ >= 0:
                    expect = expect + T[s_] * qp[s_]
            env.eq('pin %d: coolant temperature = weighted mean of its adjacent subchannels' % p, np.ravel(Tc)[p] if np.ndim(Tc) else Tc,
                   expect, tol=1e-9)


def body_wiring(env):
    """Through the public path (generated input -> DASSH_Input -> Reactor): the pin model of the assembly is wired to the
    materials and dimensions the input names -- clad, gap and every fuel zone in order.  No symbolic dimension (the
    conductivities are distinct constants): concrete check of the set-up glue, listed as such."""
    import os
    import shutil
    import tempfile
    from symx import geninp, npshim
    import dassh
    kind = env.params['kind']
    d = tempfile.mkdtemp(prefix='dassh-verif-c13.')
    try:
        mats = ['[[cladmat]]', '    thermal_conductivity = 21.5', '[[gapmat]]', '    thermal_conductivity = 0.35',
                '[[fuel_a]]', '    thermal_conductivity = 3.25', '[[fuel_b]]', '    thermal_conductivity = 4.75']
        if kind == 'PinModel':
            sub = ['[[[PinModel]]]', '    gap_thickness = 0.00004', '    clad_material = cladmat', '    gap_material = gapmat',
                   '    r_frac = 0.0, 0.5', '    pin_material = fuel_a, fuel_b']
        else:
            sub = ['[[[FuelModel]]]', '    gap_thickness = 0.00004', '    clad_material = cladmat', '    gap_material = gapmat',
                   '    r_frac = 0.0, 0.5', '    pu_frac = 0.2, 0.1', '    zr_frac = 0.1, 0.1', '    porosity = 0.25, 0.1']
        asms = {'fuel': geninp.default_asm(2, subsections=sub)}
        inp = geninp.write_case(d, asms, [('fuel', 1, 1, 'FLOWRATE=0.5'), ('fuel', 2, 1, 'FLOWRATE=0.4')], gap_model='none',
                                materials_extra=mats, core_len=0.05)
        with npshim.unpatched():
            r = dassh.Reactor(dassh.DASSH_Input(inp), path=os.path.join(d, 'out'), write_output=False)
            # two real steps of the sweep: what an assembly reports as the coolant temperature of a pin at the new plane is the
            # weighted mean of the *new-plane* temperatures of the subchannels around that pin (weights 1/6, 1/4, 1/6 by type)
            r._data_setup()
            r._data_open()
            r.axial_step0()
            stale = []
            for i in (1, 2, 3):
                r.axial_step(r.z[i], r.dz[i - 1], i, False)
                for a, asm in enumerate(r.assemblies):
                    reg = asm.rodded
                    Tsc = np.asarray(reg.temp['coolant_int'], dtype=float)
                    adj = np.asarray(reg.subchannel.pin_adj)
                    w = np.array([1 / 6, 1 / 4, 1 / 6])[np.asarray(reg.subchannel.type[:len(Tsc)], dtype=int)]
                    want = np.array([sum(Tsc[j] * w[j] for j in adj[p_] if j >= 0) / sum(w[j] for j in adj[p_] if j >= 0) for p_ in range(reg.n_pin)])
                    got = np.asarray(asm.pin_temp_array, dtype=float)[:, 3]
                    stale.append((i, a, float(np.max(np.abs(got - want))), float(np.max(Tsc) - np.min(Tsc))))
            try:
                r._data_close()
            except (AttributeError, KeyError):
                pass
    finally:
        shutil.rmtree(d, ignore_errors=True)
    for i, a, err, spread in stale:
        env.holds('step %d, assembly %d: pin coolant temperature = weighted mean of the adjacent subchannels at the new plane (1e-9 K)' % (i, a),
                  err <= 1e-9, key='pin_coolant_temperature_not_of_this_plane')
    env.holds('fixture: the coolant heats up from plane to plane', all(s_[3] > 1e-6 for s_ in stale))
    env.holds('the two assemblies of the type write their pin temperatures to arrays of their own',
              r.assemblies[0].rodded.pin_temps is not r.assemblies[1].rodded.pin_temps
              and not np.shares_memory(r.assemblies[0].rodded.pin_temps, r.assemblies[1].rodded.pin_temps), key='pin_temperatures_shared_between_assemblies')
    for a, asm in enumerate(r.assemblies):
        pm_ = asm.rodded.pin_model

        def close(x, y):
            return abs(float(np.ravel(x)[0]) - y) <= 1e-9 * abs(y)
        env.holds('assembly %d: clad conductivity is that of the material named clad_material' % a, close(pm_.clad['k'](np.array([800.0])), 21.5),
                  key='pin_model_wired_to_wrong_material')
        env.holds('assembly %d: gap conductivity is that of the material named gap_material' % a, close(pm_.gap['k'](np.array([800.0])), 0.35),
                  key='pin_model_wired_to_wrong_material')
        env.holds('assembly %d: gap thickness as given' % a, abs(float(pm_.gap['dr']) - 0.00004) < 1e-12, key='pin_model_wired_to_wrong_material')
        env.holds('assembly %d: two fuel zones' % a, len(pm_.fuel['mat']) == 2)
        if kind == 'PinModel':
            for z_, kz in enumerate((3.25, 4.75)):
                pm_.fuel['mat'][z_].update(900.0)
                env.holds('assembly %d: fuel zone %d has the conductivity of pin_material[%d]' % (a, z_, z_),
                          close(pm_.fuel['mat'][z_].thermal_conductivity, kz), key='pin_model_wired_to_wrong_material')
        else:
            ks = []
            for z_ in range(2):
                pm_.fuel['mat'][z_].update(900.0)
                ks.append(float(pm_.fuel['mat'][z_].thermal_conductivity))
            env.holds('assembly %d: the two metal-fuel zones (different composition and porosity) have different conductivities' % a,
                      abs(ks[0] - ks[1]) > 1e-3 * abs(ks[0]), key='pin_model_wired_to_wrong_material')


def instances(tier):
    inst = []
    zones = [(0.0,), (0.0, 0.5), (0.2, 0.6)] + ([(0.0, 0.33333, 0.66667)] if tier == 'thorough' else [])
    for gap in (0.0, 2e-5):
        for rf in zones:
            for zero in (False, True):
                inst.append(dict(label='pin[gap=%g,zones=%s%s]' % (gap, '/'.join(map(str, rf)), ',zero power' if zero else ''),
                                 body=body_pin, params={'gap': gap, 'r_frac': rf, 'zero_power': zero},
                                 max_paths=600, max_depth=(4 if gap > 0 else 5) if tier == 'quick' else (len(rf) + 3 if gap > 0 else 7), timeout_ms=20000))
            inst.append(dict(label='pin-closed-forms[gap=%g,zones=%s]' % (gap, '/'.join(map(str, rf))),
                             body=body_pin, params={'gap': gap, 'r_frac': rf, 'zero_power': False, 'closed_forms': True},
                             max_paths=600, max_depth=(4 if gap > 0 else 5) if tier == 'quick' else (len(rf) + 3 if gap > 0 else 7), timeout_ms=30000))
    for zero in (False, True):
        inst.append(dict(label='pin[two pins,gap=0,zones=0.0/0.5%s]' % (',zero power' if zero else ''), body=body_pin,
                         params={'gap': 0.0, 'r_frac': (0.0, 0.5), 'zero_power': zero, 'npin': 2}, max_paths=600, max_depth=6, timeout_ms=20000))
    inst.append(dict(label='pin[two pins,the other unpowered,gap=0,zones=0.0/0.5]', body=body_pin,
                     params={'gap': 0.0, 'r_frac': (0.0, 0.5), 'zero_power': False, 'npin': 2, 'other_unpowered': True},
                     max_paths=600, max_depth=6, timeout_ms=20000))
    inst.append(dict(label='pin-closed-forms[two pins,gap=0,zones=0.2/0.6]', body=body_pin,
                     params={'gap': 0.0, 'r_frac': (0.2, 0.6), 'zero_power': False, 'closed_forms': True, 'npin': 2},
                     max_paths=600, max_depth=6, timeout_ms=30000))
    for kind in ('PinModel', 'FuelModel'):
        inst.append(dict(label='pin-model-wiring[%s]' % kind, body=body_wiring, params={'kind': kind}, check_vacuity=False))
    for n in (2, 3):
        inst.append(dict(label='pin-coolant-average[rings=%d]' % n, body=body_coolant_avg, params={'n_ring': n}))
    return inst


def main():
    a = runner.main_args()
    inst = runner.select(instances(a.tier), a.only)
    runner.run_check(
        'C13', inst, a.tier,
        explanation=('PinModel.calculate_temperatures runs with symbolic linear power, coolant temperature, film coefficient and step; '
                     'clad, gap and fuel-zone conductivities are uninterpreted positive functions of temperature; every outcome of the '
                     'convergence tests of the conductivity iterations (within the fork budget) is a path.  Ordering, zero-power '
                     'identity, film / clad / gap (conduction + radiation) / fuel-shell closed forms with the logged conductivity evaluations, '
                     'and the pin-adjacent coolant average are SMT queries.'),
        bounds={'fuel zones': '1..2 (quick) / 1..3, solid and annular', 'gap': '0 and 20 micron with radiation',
                'iterations': 'fork depth 5 (4 with a gap) quick / 7 (zones + 3 with a gap) thorough over all conductivity loops', 'pins': '1, and 2 (the second pin is the one under test)',
                'dz': 'symbolic for ordering / zero power / film; 0.0125 m in the closed-form instances (it enters only as q = q\' dz and cancels)'},
        outside=['"conductivity at the reported temperatures" is taken as: the mean of the evaluations at the outer temperature and at the '
                 'previous inner iterate, which differs from the reported inner temperature by at most atol (the loop exit condition); '
                 'convergence rate; iteration-limit error path', 'annular pellets: the shell relation of the code (solid-cylinder form with the '
                 'annulus power density) is what is checked, not the exact hollow-cylinder solution', 'metal-fuel conductivity polynomial (replaced by an arbitrary positive function)',
                 'monotonicity in power for temperature-dependent conductivity'],
        level_assumptions=['conductivities positive', 'q_lin >= 0, htc > 0'])


if __name__ == '__main__':
    main()
