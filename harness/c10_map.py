"""C10 -- duct <-> gap mesh mapping is positive, exact on constants, conservative.

Real code executed symbolically: mesh_functions._map_asm2gap, map_across_gap;
RoddedRegion.calculate_xbnds, SingleNodeHomogeneous.calculate_xbnds,
Core._calculate_gap_xbnds (which produce the boundary arrays from symbolic pitches and corner
lengths).  Mesh interleavings are forks of searchsorted / min / while.
"""
import numpy as np

from symx import runner, core
from harness.common import StubSelf

import dassh.mesh_functions as mf
import dassh.region_rodded as rrm
import dassh.region_unrodded as rum
import dassh.core as cm
import dassh.region as rgm

MODS = [mf, rrm, rum, cm, rgm]


def _sum(xs):
    t = 0.0
    for x in xs:
        t = t + x
    return t


def _region_xbnds(env, n, h, tag, nduct=1):
    """Boundaries of a pin-bundle region with n edge cells per side (real calculate_xbnds).  With several ducts the
    inner walls have their own (smaller, GEOM-ordered) corner lengths and flat-to-flat sizes: the boundaries must describe
    the outermost wall."""
    P = env.pos(tag + 'pitch', hi=10)
    wc = (h - n * P) / 2                    # GEOM: 2 wc + n P = hex side (proved in C08)
    env.assume(wc > 0)
    typ = np.array(([3] * n + [4]) * 6)
    sc = StubSelf(n_sc={'duct': {'total': 6 * (n + 1)}}, type=np.concatenate([np.zeros(5, dtype=int), typ]))
    wcorner = np.empty((nduct, 2), dtype=object)
    ftf = []
    prev = None
    for i in range(nduct - 1):
        a = env.pos('%swcorner%d_in' % (tag, i), hi=10)
        b = env.pos('%swcorner%d_out' % (tag, i), hi=10)
        env.assume(b > a)
        if prev is not None:
            env.assume(a > prev)
        prev = b
        wcorner[i, 0], wcorner[i, 1] = a, b
        ftf.append([0.0, env.pos('%sinner_ftf%d' % (tag, i), hi=10)])
    wcorner[nduct - 1, 0] = wc if prev is None else env.pos('%swcorner_last_in' % tag, hi=10)
    wcorner[nduct - 1, 1] = wc
    if prev is not None:
        env.assume(wcorner[nduct - 1, 0] > prev)
        env.assume(wc > wcorner[nduct - 1, 0])
    if env.mode == 'replay':
        wcorner = wcorner.astype(float)
    s = StubSelf(subchannel=sc, pin_pitch=P, d={'wcorner': wcorner}, duct_ftf=ftf + [[0.0, h]])
    return rrm.RoddedRegion.calculate_xbnds(s), [P] * n + [2 * wc]


def _unrodded_xbnds(env, h, nduct=1, order=None):
    """Boundaries of a low-fidelity region.  With nduct == 1 and no order: calculate_xbnds on a stub carrying the outer
    wall.  Otherwise the real constructor runs on a symbolic flat-to-flat list (nduct walls, listed in the given order):
    whatever it keeps, the boundaries must walk the outermost wall, the one the gap mesh is laid out on."""
    if nduct == 1 and order is None:
        s = StubSelf(duct_ftf=[0.0, h])
        return rum.SingleNodeHomogeneous.calculate_xbnds(s), [h]
    vals = []
    prev = None
    for i in range(2 * nduct - 1):
        v = env.pos('unrodded_ftf%d' % i, hi=100)
        if prev is not None:
            env.assume(v > prev)
        prev = v
        vals.append(v)
    env.assume(h > prev)
    vals.append(h)
    lst = [vals[i] for i in (order or range(2 * nduct))]
    # (the six-node model calls the same constructor for these fields and inherits calculate_xbnds)
    reg = rum.SingleNodeHomogeneous('ur', 0.0, 1.0, lst, 0.3, 1.0, None, None, None)
    return reg.calculate_xbnds(), [h]


def _gap_xbnds(env, sides, h):
    """sides: list of 6 cells-per-side counts (mixed neighbours allowed); real _calculate_gap_xbnds."""
    dims = np.empty((1, 6, 2), dtype=object)
    scps = np.zeros((1, 6), dtype=int)
    widths = []
    kinds = {}
    for s_, n in enumerate(sides):
        if n not in kinds:
            if n == 0:
                kinds[n] = (0.0, h / 2)
            else:
                pp = env.pos('gap_pitch_n%d' % n, hi=10)
                dwc = (h - n * pp) / 2
                env.assume(dwc > 0)
                kinds[n] = (pp, dwc)
        dims[0, s_, 0], dims[0, s_, 1] = kinds[n]
        scps[0, s_] = n
    ncell = sum(sides) + 6
    g = StubSelf(n_asm=1, duct_oftf=h, _geom_params={'dims': dims, 'sc_per_side': scps},
                 _asm_sc_adj=np.zeros((1, ncell + env.params.get('pad', 2)), dtype=int))
    xb = cm.Core._calculate_gap_xbnds(g)
    # widths of the gap cells in DASSH order (first cell after the top corner ... top corner last)
    for s_, n in enumerate(sides):
        pp, dwc = kinds[n]
        widths += [pp] * n
        nxt = kinds[sides[(s_ + 1) % 6]][1]
        widths.append(dwc + nxt)
    return xb[0], widths


def body_map(env):
    reg = env.params['region']        # ('rodded', n) or ('unrodded',)
    sides = env.params['gap']         # 6 counts
    with env.patch(MODS, overrides={'sqrt': lambda x: 1.0 if (isinstance(x, (int, float)) and x == 3) else core.sym_sqrt(x)},
                   extra={(cm, '_sqrt3'): 1.0}):
        env.stub('sqrt(3) replaced by 1 and the duct flat-to-flat by the hex side length h (only their quotient is used)')
        h = env.pos('hex_side', hi=100)
        if reg[0] == 'rodded':
            xr, wr = _region_xbnds(env, reg[1], h, 'region_', env.params.get('region_ducts', 1))
            wr = wr * 6
        else:
            xr, _ = _unrodded_xbnds(env, h, env.params.get('region_ducts', 1), env.params.get('ftf_order'))
            wr = [h] * 6
        xg, wg = _gap_xbnds(env, sides, h)
        rel = env.params.get('rel')
        if rel is not None:
            # same number of cells on both meshes: _map_asm2gap takes an np.allclose shortcut
            # (rtol 1e-5, atol 1e-8 m).  Claimed: exactly equal meshes, and meshes that differ by
            # at least 1 %; the tolerance band in between is outside the claim.
            Pg, Pr = wg[0], wr[0]
            env.assume(h >= 0.001)
            env.assume(Pr >= 0.1 * h)
            if rel == 'equal':
                env.assume(Pg == Pr)
            else:
                env.assume(env.lor(Pg - Pr >= 0.01 * Pr, Pr - Pg >= 0.01 * Pr))
        if env.mode == 'replay':
            xr = np.asarray(xr, dtype=float)
            xg = np.asarray(xg, dtype=float)
        F, C = mf._map_asm2gap(xr, xg)          # gap->duct (n_reg x fine_dim), duct->gap (fine_dim x n_reg)
        nr, ng = len(wr), len(wg)
        env.holds('map shapes', F.shape[0] == nr and C.shape[1] == nr and F.shape[1] == C.shape[0] and F.shape[1] >= ng)
        for c in range(nr):
            for f in range(F.shape[1]):
                if f >= ng:
                    env.eq('padding column %d of gap->duct is empty (row %d)' % (f, c), F[c, f], 0.0)
                    env.eq('padding row %d of duct->gap is empty (col %d)' % (f, c), C[f, c], 0.0)
                    continue
                env.ge('gap->duct weight [%d,%d] >= 0' % (c, f), F[c, f], 0.0)
                env.ge('duct->gap weight [%d,%d] >= 0' % (f, c), C[f, c], 0.0)
                env.eq('same heat on both meshes: dx_duct*F[%d,%d] = dx_gap*C[%d,%d]' % (c, f, f, c),
                       wr[c] * F[c, f], wg[f] * C[f, c], tol=1e-9, key='map_not_adjoint')
        for c in range(nr):
            env.eq('gap->duct reproduces a uniform field (row %d sums to one)' % c, _sum(F[c, f] for f in range(ng)), 1.0, tol=1e-9)
        for f in range(ng):
            env.eq('duct->gap reproduces a uniform field (row %d sums to one)' % f, _sum(C[f, c] for c in range(nr)), 1.0, tol=1e-9)
            env.eq('perimeter-weighted integral preserved (gap cell %d)' % f, _sum(wr[c] * F[c, f] for c in range(nr)), wg[f],
                   tol=1e-9, key='map_not_conservative')
        # mapped uniform field through the real map_across_gap
        ones_g = np.ones(F.shape[1])
        out = mf.map_across_gap(ones_g[:F.shape[1]] * np.array([1.0 if f < ng else 0.0 for f in range(F.shape[1])]), F)
        for c in range(nr):
            env.eq('map_across_gap(uniform) is uniform (cell %d)' % c, out[c], 1.0, tol=1e-9)
        # arbitrary fields through the real map_across_gap, both directions: the transfer is the action of the matrices
        # (also when a matrix is square but not the identity: equal cell counts, different pitches)
        vg = np.empty(F.shape[1], dtype=object)
        for f in range(F.shape[1]):
            vg[f] = env.real('field_gap%d' % f, lo=-1e4, hi=1e4)
        vr = np.empty(nr, dtype=object)
        for c in range(nr):
            vr[c] = env.real('field_duct%d' % c, lo=-1e4, hi=1e4)
        if env.mode == 'replay':
            vg, vr = vg.astype(float), vr.astype(float)
        og = mf.map_across_gap(vg, F)
        orr = mf.map_across_gap(vr, C)
        for c in range(nr):
            env.eq('map_across_gap: gap field onto duct cell %d = row %d of the gap->duct matrix applied to it' % (c, c), og[c],
                   _sum(F[c, f] * vg[f] for f in range(F.shape[1])), tol=1e-9, key='transfer_is_not_the_matrix_action')
        for f in range(C.shape[0]):
            env.eq('map_across_gap: duct field onto gap cell %d = row %d of the duct->gap matrix applied to it' % (f, f), orr[f],
                   _sum(C[f, c] * vr[c] for c in range(nr)), tol=1e-9, key='transfer_is_not_the_matrix_action')
        if rel == 'equal':
            for c in range(nr):
                for f in range(ng):
                    env.eq('identical meshes: identity [%d,%d]' % (c, f), F[c, f], 1.0 if c == f else 0.0)


def body_stored(env):
    """The maps every region of every assembly of a real Reactor carries are the maps of *its own* position: equal to
    _map_asm2gap(region bounds, gap bounds around that assembly) recomputed here.  No symbolic dimension: enumeration of
    layouts (two assemblies of a type facing different neighbours are the point)."""
    from harness import symcore as SC
    r = SC.build_reactor(env.params['layout'])
    n = 0
    for a, asm in enumerate(r.assemblies):
        for k, reg in enumerate(asm.region):
            F, C = mf._map_asm2gap(reg.calculate_xbnds(), r.core._asm_sc_xbnds[a])
            ok = (np.shape(F) == np.shape(reg._map['gap2duct']) and np.shape(C) == np.shape(reg._map['duct2gap'])
                  and bool(np.allclose(F, reg._map['gap2duct'], rtol=1e-12, atol=1e-14))
                  and bool(np.allclose(C, reg._map['duct2gap'], rtol=1e-12, atol=1e-14)))
            env.holds('assembly %d region %d carries the maps of its own position' % (a, k), ok, key='stored_map_of_another_position')
            xr = np.asarray(reg.calculate_xbnds(), dtype=float)
            env.holds('assembly %d region %d: the duct boundaries run once around the outer wall the gap mesh is laid out on' % (a, k),
                      bool(abs(xr[-1] - 6 * r.core.duct_oftf / np.sqrt(3)) <= 1e-9 * abs(xr[-1]) and np.all(np.diff(xr) > 0)
                           and xr[0] == 0.0), key='region_mesh_on_another_perimeter')
            Fs, Cs = np.asarray(reg._map['gap2duct'], dtype=float), np.asarray(reg._map['duct2gap'], dtype=float)
            ng = int(np.count_nonzero(Cs.sum(axis=1) > 0))
            env.holds('assembly %d region %d: stored weights non-negative, uniform field reproduced' % (a, k),
                      bool(np.all(Fs >= 0) and np.all(Cs >= 0) and np.allclose(Fs.sum(axis=1), 1.0, atol=1e-9)
                           and np.allclose(Cs.sum(axis=1)[:ng], 1.0, atol=1e-9)), key='stored_map_not_a_weighted_mean')
            n += 1
    env.holds('every assembly has at least one region with maps', n >= len(r.assemblies))


def instances(tier):
    inst = []
    regs = [('unrodded',), ('rodded', 1), ('rodded', 2)] + ([('rodded', 3)] if tier == 'thorough' else [])
    gaps = [(0,) * 6, (1,) * 6, (2,) * 6, (3,) * 6, (2, 2, 1, 1, 2, 2), (1, 3, 1, 3, 1, 3), (0, 0, 2, 2, 0, 0), (2, 1, 0, 2, 1, 0)]
    if tier == 'thorough':
        gaps += [(4,) * 6, (5,) * 6, (3, 3, 5, 5, 3, 3), (0, 4, 0, 4, 0, 4)]
    for r in regs:
        for g in gaps:
            nreg = 0 if r[0] == 'unrodded' else r[1]
            if max(g) < nreg:
                continue        # the gap mesh is the finer of the two on every side: it is never coarser than the region
            same = (r[0] == 'rodded' and all(x == r[1] for x in g))
            if any(x < nreg for x in g):
                continue
            for rel in (('equal', 'distinct') if same else (None,)):
                inst.append(dict(label='map[region=%s,gap=%s%s]' % ('-'.join(map(str, r)), ''.join(map(str, g)), ',' + rel if rel else ''),
                                 body=body_map, params={'region': r, 'gap': g, 'rel': rel}, max_paths=512, max_depth=400, timeout_ms=60000))
                if same:
                    # the assembly with the most gap cells of its core: no padding columns, the matrices are square
                    inst.append(dict(label='map[region=%s,gap=%s,%s,no padding]' % ('-'.join(map(str, r)), ''.join(map(str, g)), rel),
                                     body=body_map, params={'region': r, 'gap': g, 'rel': rel, 'pad': 0}, max_paths=512, max_depth=400,
                                     timeout_ms=60000))
    for l in ('two-a2-a3', 'three-a2-a3-ur', 'ring-no-centre', 'six-hole', 'seven-mixed', 'seven-alt', 'three-a3-dd-u6', 'three-a3-b3-a2', 'three-a2-du-d6', 'two-a2r-a3', 'three-ddr-a3-a2r'):
        inst.append(dict(label='stored-maps[%s]' % l, body=body_stored, params={'layout': l}, check_vacuity=False))
    # regions with two and three duct walls: the boundaries must describe the outermost wall
    for nd in ((2,) if tier == 'quick' else (2, 3)):
        for r, g, rel in ((('rodded', 1), (1,) * 6, 'equal'), (('rodded', 1), (2, 2, 1, 1, 2, 2), None), (('rodded', 2), (3,) * 6, None)):
            inst.append(dict(label='map[region=%s,region ducts=%d,gap=%s%s]' % ('-'.join(map(str, r)), nd, ''.join(map(str, g)), ',' + rel if rel else ''),
                             body=body_map, params={'region': r, 'gap': g, 'rel': rel, 'region_ducts': nd}, max_paths=512, max_depth=400,
                             timeout_ms=60000))
    # low-fidelity regions of assemblies with one to three duct walls, built by the real constructors from a symbolic
    # flat-to-flat list (ascending and outer-wall-first)
    for model in ('simple',):
        for nd, order in ((1, (0, 1)), (2, (0, 1, 2, 3)), (2, (2, 3, 0, 1))) + (() if tier == 'quick' else ((3, (0, 1, 2, 3, 4, 5)), (3, (5, 4, 3, 2, 1, 0)))):
            for g in ((0,) * 6, (2, 1, 0, 2, 1, 0)):
                inst.append(dict(label='map[region=unrodded(%s) built from ftf list %s,gap=%s]' % (model, ''.join(map(str, order)), ''.join(map(str, g))),
                                 body=body_map, params={'region': ('unrodded',), 'gap': g, 'rel': None, 'region_ducts': nd, 'ftf_order': order,
                                                        'model': model}, max_paths=512, max_depth=400, timeout_ms=60000))
    return inst


def main():
    a = runner.main_args()
    inst = runner.select(instances(a.tier), a.only)
    runner.run_check(
        'C10', inst, a.tier,
        explanation=('The boundary arrays are produced by the real calculate_xbnds / _calculate_gap_xbnds from symbolic pitches and '
                     'corner lengths, the real _map_asm2gap runs on them (every interleaving of the two meshes is a path); '
                     'non-negativity, rows summing to one, adjointness dx_c*F[c,f] = dx_f*C[f,c] and preservation of the '
                     'perimeter-weighted integral are SMT queries per entry.'),
        bounds={'region cells per side': 'corner-only (unrodded), 1, 2 (quick) / +3', 'gap cells per side': '0..3 (quick) / 0..5',
                'mixed neighbours': 'per-side gap meshes with two different cell counts',
                'region duct walls': '1; 2 (quick) / 2..3 for three mesh pairs (inner walls carry their own corner lengths)'},
        outside=['ring counts up to 15 are not enumerated (claim is per cells-per-side bound)',
                 'equal cell counts with pitches differing by less than 1 % (np.allclose shortcut band: rtol 1e-5 / atol 1e-8 m)',
                 'a region mesh finer than the gap mesh on some side (the gap takes the finer mesh by construction: C09)'],
        level_assumptions=['2*corner length + n*pitch = hex side for the region and for each gap side (GEOM, C08 / C09)'])


if __name__ == '__main__':
    main()
