"""C09 -- inter-assembly gap mesh is well-formed for every core layout.

Part A (symbolic dimensions per layout): the geometry routines of the real Core
(_calculate_gap_xbnds, _calculate_sc_wp, _calculate_asm_sc_wp, _calculate_sc_area,
_calculate_dist_between_sc, _make_cond_mask) are re-run on a copy of the Core built by a real
Reactor with the pin pitches / corner lengths of every mesh kind, the hex side, the gap width
and sqrt(3) symbolic.  Part B (topology; no symbolic dimension): the index tables built by the
real Core.load for each enumerated layout are checked directly (reported as enumeration).
"""
import copy
import itertools

import numpy as np
import z3

from symx import runner, core
from symx.core import Sym
from harness import symcore as SC

import dassh.core as cm

MODS = [cm]


def _sum(xs):
    t = 0.0
    for x in xs:
        t = t + x
    return t


def _recompute(env, r, tag, S, hs, dgap, free=False):
    c = copy.copy(r.core)
    real = r.core
    dims0 = real._geom_params['dims']
    scps = real._geom_params['sc_per_side']
    kinds = {}
    dims = np.empty(dims0.shape, dtype=object)
    for a in range(real.n_asm):
        for s_ in range(6):
            n = int(scps[a, s_])
            key = (n, round(float(dims0[a, s_, 0]), 9))
            if key not in kinds:
                if n == 0:
                    kinds[key] = (0.0, hs / 2)
                else:
                    # the mesh pitch of the second copy is a free input (any bundle pitch with n * pitch < hex side is
                    # constructible), not derived state: no `actual` value, so a counterexample with different meshes is
                    # replayed with the solver's pitch
                    pp = env.pos('%spitch_kind%d' % (tag, len(kinds)), hi=10, **({'actual': float(dims0[a, s_, 0])} if free is False else
                                                                                   {'nominal': 0.93 * float(dims0[a, s_, 0])}))
                    kinds[key] = (pp, (hs - n * pp) / 2)
                    env.assume(kinds[key][1] > 0)
            dims[a, s_, 0], dims[a, s_, 1] = kinds[key]
    c._geom_params = {'dims': dims if env.mode == 'sym' else dims.astype(float), 'sc_per_side': scps}
    c.duct_oftf = hs * S
    c.hex_side_len = hs
    c.d_gap = dgap
    c._asm_sc_xbnds = c._calculate_gap_xbnds()
    c.gap_params = {}
    c.gap_params['wp'] = c._calculate_sc_wp()
    c.gap_params['asm wp'] = c._calculate_asm_sc_wp()
    c.gap_params['area'] = c._calculate_sc_area()
    c.gap_params['L'] = c._calculate_dist_between_sc()
    c._make_cond_mask()
    return c


def _reactor(env, layout):
    """The real Reactor of an enumerated layout; an exception other than the error exit while the real Core builds its gap
    mesh is a violation of its own (the mesh must be constructible for every arrangement)."""
    try:
        r = SC.build_reactor(layout)
    except (IndexError, KeyError, ValueError, TypeError, AssertionError, AttributeError, ZeroDivisionError) as ex:
        env.fail('the gap mesh of this layout can be built by the real Core', why=repr(ex)[:200], key='core_load_raises')
        env.stop()
    env.holds('the gap mesh of this layout can be built by the real Core', True)
    return r


def body_geometry(env):
    layout = env.params['layout']
    r = _reactor(env, layout)
    real = r.core
    if env.mode == 'sym':
        S = Sym(z3.Real('SQRT3'))
        core.CTX.assumptions += [S.e > z3.RealVal('1.732'), S.e < z3.RealVal('1.7321'), S.e * S.e == 3]
        ov = {'sqrt': lambda x: S if (isinstance(x, (int, float)) and x == 3) else core.sym_sqrt(x)}
        extra = {(cm, '_sqrt3'): S}
    else:
        S = 3 ** 0.5
        ov, extra = {}, {}
    with env.patch(MODS, overrides=ov, sym_extra=extra):
        hs = env.pos('hex_side', hi=10, actual=float(real.hex_side_len))
        dgap = env.pos('d_gap', hi=1, actual=float(real.d_gap))
        c = _recompute(env, r, 'm1_', S, hs, dgap)
        n_sc = real.n_sc
        adj = real._asm_sc_adj
        # every assembly's perimeter is covered exactly once
        for a in range(real.n_asm):
            cov = _sum(c.gap_params['asm wp'][a, i] for i in range(adj.shape[1]) if adj[a, i] > 0)
            env.eq('assembly %d: gap cells cover its duct perimeter exactly once' % a, cov, 6 * hs, tol=1e-9)
            for i in range(adj.shape[1]):
                if adj[a, i] > 0:
                    env.gt('assembly %d: contact length with gap cell %d positive' % (a, adj[a, i]), c.gap_params['asm wp'][a, i], 0.0)
        # a shared cell is seen identically by all its neighbours (finer mesh on both sides)
        for f in range(n_sc):
            asm, loc = np.where(adj == f + 1)
            if real._sc_types[f] == 0 and len(asm) == 2:
                env.eq('edge cell %d: same contact length seen from both assemblies' % (f + 1),
                       c.gap_params['asm wp'][asm[0], loc[0]], c.gap_params['asm wp'][asm[1], loc[1]], tol=1e-9)
        # conduction resistances symmetric and positive
        sadj = real._sc_adj
        for i in range(n_sc):
            for j in range(3):
                k = sadj[i, j] - 1
                if k < 0:
                    continue
                back = [jj for jj in range(3) if sadj[k, jj] - 1 == i]
                env.holds('gap adjacency symmetric (%d,%d)' % (i + 1, k + 1), len(back) >= 1)
                if back and i < k:
                    env.eq('conduction resistance symmetric (%d,%d)' % (i + 1, k + 1), c._Rcond[i, j], c._Rcond[k, back[0]], tol=1e-9,
                           key='Rcond_not_symmetric')
                    env.gt('conduction resistance positive (%d,%d)' % (i + 1, k + 1), c._Rcond[i, j], 0.0)
        # total flow area depends only on layout, hex side and gap width -- not on the meshes
        c2 = _recompute(env, r, 'm2_', S, hs, dgap, free=True)
        env.eq('total gap flow area independent of the assembly meshes', _sum(c.gap_params['area']), _sum(c2.gap_params['area']),
               tol=1e-9, key='gap_area_depends_on_mesh')
        for f in range(n_sc):
            env.gt('gap cell %d: flow area positive' % (f + 1), c.gap_params['area'][f], 0.0)


def _subset_layout(mask, types):
    """Layout of the 7-position core whose positions are selected by the bits of `mask`; types cycle over `types`."""
    out = []
    for k, (ring, pos) in enumerate(SC.POS7):
        if mask >> k & 1:
            out.append((types[k % len(types)], ring, pos))
    return tuple(out)


def body_topology(env):
    layout = env.params['layout']
    if isinstance(layout, int):
        layout = _subset_layout(layout, env.params['types'])
    r = _reactor(env, layout)
    c = r.core
    adj = c._asm_sc_adj
    n_sc = c.n_sc
    env.holds('gap cells numbered 1..n without holes', sorted(set(int(x) for x in adj.ravel() if x > 0)) == list(range(1, n_sc + 1)))
    for f in range(1, n_sc + 1):
        asm, loc = np.where(adj == f)
        env.holds('gap cell %d borders one to three assemblies' % f, 1 <= len(set(asm)) <= 3 and len(asm) == len(set(asm)))
    sadj = c._sc_adj
    for i in range(n_sc):
        nb = [int(k) for k in sadj[i] if k > 0]
        env.holds('gap cell %d has 2 (edge) or up to 3 (corner) neighbours, all distinct' % (i + 1),
                  len(nb) == len(set(nb)) and (len(nb) == 2 if c._sc_types[i] == 0 else 2 <= len(nb) <= 3) and (i + 1) not in nb)
        for k in nb:
            env.holds('gap adjacency symmetric (%d,%d)' % (i + 1, k), (i + 1) in [int(x) for x in sadj[k - 1]])
    # per assembly: number of cells = sum over sides of (cells per side + 1 corner)
    scps = c._geom_params['sc_per_side']
    for a in range(c.n_asm):
        env.holds('assembly %d touches sum(cells per side) + 6 gap cells' % a, int(np.count_nonzero(adj[a])) == int(np.sum(scps[a])) + 6)
        # the shared side carries the finer mesh
        for s_ in range(6):
            nb = c.asm_adj[a][s_] - 1
            if nb >= 0:
                own = r.assemblies[a].rodded.subchannel.n_sc['duct']['edge'] // 6 if r.assemblies[a].has_rodded else 0
                oth = r.assemblies[nb].rodded.subchannel.n_sc['duct']['edge'] // 6 if r.assemblies[nb].has_rodded else 0
                env.holds('assembly %d side %d carries the finer of the two meshes' % (a, s_), int(scps[a, s_]) == max(own, oth))
    env.holds('gap cell flows sum to the gap flow (1e-12 relative)',
              abs(float(np.sum(c._sc_mfr)) - float(c.gap_flow_rate)) <= 1e-12 * float(c.gap_flow_rate))
    fr = c._sc_mfr / c.gap_flow_rate
    env.holds('gap flow split over the cells in proportion to their area', bool(np.allclose(fr, c.gap_params['area'] / np.sum(c.gap_params['area']), rtol=1e-12, atol=0)))


def instances(tier):
    inst = []
    lay_q = ['one-a2', 'two-a2-a3', 'three-a2-a3-ur', 'three-a3-dd-u6', 'ring-no-centre', 'three-a3-b3-a2', 'three-ur-u6-a2']
    lay_t = lay_q + ['seven-mixed', 'seven-a2', 'six-hole']
    for l in (lay_q if tier == 'quick' else lay_t):
        inst.append(dict(label='geometry[%s]' % l, body=body_geometry, params={'layout': l}, max_paths=64, max_depth=400, timeout_ms=120000))
    for l in lay_t:
        inst.append(dict(label='topology[%s]' % l, body=body_topology, params={'layout': l}, check_vacuity=False))
    # subsets of the 7-position core (bit k = position k of centre, ring position 1..6): all 127 subsets with one assembly type (quick) / one type
    # and a mix of three mesh kinds (thorough)
    masks = list(range(1, 128))
    for m in masks:
        for types in ((('a2',), ('ur',)) if tier == 'quick' else (('a2',), ('ur',), ('a3', 'a2', 'ur'), ('ur', 'u6', 'a3'))):
            inst.append(dict(label='topology-subset[positions=%s,types=%s]' % (format(m, '07b')[::-1], '/'.join(types)), body=body_topology,
                             params={'layout': m, 'types': types}, check_vacuity=False))
    return inst


def main():
    a = runner.main_args()
    inst = runner.select(instances(a.tier), a.only)
    runner.run_check(
        'C09', inst, a.tier,
        explanation=('Part A: the geometry routines of the real Core re-run on a Core built by a real Reactor with the mesh pitches, hex '
                     'side, gap width and sqrt(3) symbolic: perimeter covered once, shared cells seen identically, conduction resistances '
                     'symmetric, total area independent of the meshes (self-composition over two independent mesh symbol sets) are SMT '
                     'queries.  Part B: the index tables built by the real Core.load per enumerated layout are checked directly '
                     '(enumeration of configurations, no symbolic dimension).'),
        bounds={'layouts': '1, 2, 3 positions (mixed 2-/3-ring, unrodded, double duct, six-node), ring without centre (quick) / + three 6-7 position layouts; topology: all 127 subsets of the 7-position core, one mesh kind (quick) / one and three mesh kinds',
                'mesh kinds per layout': 'up to 3'},
        outside=['19/37-position cores (only a sparse 19-position grid in C07); mixed mesh kinds on all 127 subsets of the 7-position core only in the thorough tier'],
        level_assumptions=['cells per side * pitch + 2 * corner length = hex side for every mesh kind (C08 GEOM)'])


if __name__ == '__main__':
    main()
