"""C12 -- flow split conserves mass and equalises pressure gradients; every accepted combination
of correlations can be evaluated in every flow regime.

Real code executed symbolically: RoddedRegion._init_static_correlated_params,
_update_coolant_int_params and, through them, every calculate_flow_split /
calculate_bundle_friction_factor / calculate_mixing_params / nusselt function of
dassh/correlations for the chosen combination; flowsplit_ctd._iterate (lifted loop body).
The viscosity -- hence the bundle Reynolds number -- is a solver variable, so the regime tests of
all three correlation families fork and every regime combination is a path.
"""
import itertools

import numpy as np
import z3

from symx import runner, core, fixtures, loops
from symx.core import Sym
from harness import symregion as SR

import dassh.region_rodded as rrm
import dassh.region as rgm
import dassh.correlations.flowsplit_ctd as fs_ctd
import dassh.correlations.flowsplit_uctd as fs_uctd
import dassh.correlations.flowsplit_nov as fs_nov
import dassh.correlations.flowsplit_mit as fs_mit
import dassh.correlations.flowsplit_se2 as fs_se2
import dassh.correlations.friction_ctd as ff_ctd
import dassh.correlations.friction_uctd as ff_uctd
import dassh.correlations.friction_cts as ff_cts
import dassh.correlations.friction_nov as ff_nov
import dassh.correlations.friction_reh as ff_reh
import dassh.correlations.friction_eng as ff_eng
import dassh.correlations.mixing_ctd as mx_ctd
import dassh.correlations.mixing_uctd as mx_uctd
import dassh.correlations.mixing_mit as mx_mit
import dassh.correlations.mixing_kc as mx_kc
import dassh.correlations.nusselt_db as nu_db

MODS = [rrm, rgm, fs_ctd, fs_uctd, fs_nov, fs_mit, fs_se2, ff_ctd, ff_uctd, ff_cts, ff_nov, ff_reh, ff_eng,
        mx_ctd, mx_uctd, mx_mit, mx_kc, nu_db]
FS = ['NOV', 'SE2', 'MIT', 'CTD', 'UCTD']
FF = ['NOV', 'REH', 'ENG', 'CTS', 'CTD', 'UCTD']
MIX = ['MIT', 'CTD', 'UCTD', 'KC-BARE']
_REG = {}


def _region(n, combo, grid, bare=None):
    key = (n, combo, grid, bare)
    if key not in _REG:
        sg = None
        if grid:
            sg = {'corr': None, 'corr_coeff': None, 'loss_coeff': 0.9, 'axial_positions': [0.05, 0.1], 'solidity': None}
        kw = {}
        if bare is not None:
            # bare-rod bundle: wire diameter zero, wire pitch either zero or left at a positive value (both spellings are
            # accepted by the reader and by check_correlation)
            kw = {'dims': dict(fixtures.bundle_dims(n, 1), Dw=0.0), 'H': bare}
        r = fixtures.make_rodded(n, 1, fr=1.0, corr=(combo[1], combo[0], combo[2]), coolant=fixtures.fixed_material(),
                                 duct=fixtures.duct_material(), spacer_grid=sg, **kw)
        r.z = [0.0, 0.2]
        _REG[key] = r
    import copy
    # deep copy: the real set-up stores arrays in nested dictionaries (corr_constants); a symbolic run must not
    # leave object arrays behind for the concrete replay in the same process
    return copy.deepcopy(_REG[key])


def body_eval(env):
    combo = env.params['combo']          # (flowsplit, friction, mixing)
    n = env.params['n_ring']
    core.FEAS_TIMEOUT_MS = 1500
    with env.patch(MODS):
        r = _region(n, combo, env.params.get('grid', False), env.params.get('bare'))
        # Re = (m/A) De / mu  with mu symbolic:  Re in (10, 1e6)
        G = r.int_flow_rate / r.bundle_params['area'] * r.bundle_params['de']
        mu = env.real('viscosity', lo=float(G) / 1e6, hi=float(G) / 10.0, nominal=float(G) / 2000.0)
        r.coolant = SR.SymMat(heat_capacity=1275.0, density=850.0, thermal_conductivity=75.0, viscosity=mu, temperature=623.15)
        env.stub('coolant Material replaced by constant properties with a symbolic viscosity (bundle Re in (10, 1e6))')
        if env.mode == 'sym':
            r.coolant_int_params = {k: (core.Sym.__class__ and v) for k, v in r.coolant_int_params.items()}
            for k in ('Re_sc', 'fs', 'ff', 'swirl', 'htc'):
                r.coolant_int_params[k] = np.array(r.coolant_int_params[k], dtype=object)
        try:
            r._init_static_correlated_params(700.0)
            r._update_coolant_int_params(700.0, use_mat_tracker=False)
        except (KeyError, IndexError, TypeError, AttributeError, ZeroDivisionError, ValueError) as ex:
            # classify the regime of this path against the Cheng-Todreas regime bounds (independent call)
            Re = r.coolant_int_params['Re']
            b1, b2 = ff_ctd.calculate_Re_bounds(r), ff_uctd.calculate_Re_bounds(r)
            bl, bt = min(b1[0], b2[0]), max(b1[1], b2[1])      # transition band of either Cheng-Todreas family
            regime = 'laminar' if Re <= bl else ('turbulent' if Re >= bt else 'transition')
            env.fail('every accepted correlation combination can be evaluated in every regime', why=repr(ex)[:160],
                     key='eval_raises:' + regime)
            env.stop()
        except StopIteration:
            env.stop()           # transition iteration limit: outside the unrolling bound
        fs = r.coolant_int_params['fs']
        N = [r.subchannel.n_sc['coolant'][k] for k in ('interior', 'edge', 'corner')]
        A = r.params['area']
        Ab = float(r.bundle_params['area'])
        tot = N[0] * A[0] * fs[0] + N[1] * A[1] * fs[1] + N[2] * A[2] * fs[2]
        for i in range(3):
            env.gt('flow split of type %d positive' % i, fs[i], 0.0, core=not isinstance(fs[i], Sym))
        env.le('flow split conserves mass (1e-9 relative), hi', tot - Ab, 1e-9 * Ab, key='mass_not_conserved')
        env.ge('flow split conserves mass (1e-9 relative), lo', tot - Ab, -1e-9 * Ab, key='mass_not_conserved')
        ff = r.coolant_int_params['ff']
        env.gt('bundle friction factor positive', ff if not hasattr(ff, '__len__') else ff[0] if len(np.shape(ff)) else ff, 0.0,
               core=not isinstance(ff, Sym), key='nonfinite_correlation')
        env.ge('eddy diffusivity >= 0', r.coolant_int_params['eddy'], 0.0, core=not isinstance(r.coolant_int_params['eddy'], Sym), key='negative_or_nonfinite_mixing')
        env.ge('swirl velocity >= 0', r.coolant_int_params['swirl'][1], 0.0, core=not isinstance(r.coolant_int_params['swirl'][1], Sym), key='negative_or_nonfinite_mixing')
        env.eq('swirl velocity equal for edge and corner cells', r.coolant_int_params['swirl'][1], r.coolant_int_params['swirl'][2])
        # finiteness: every logarithm / non-integer power evaluated on this path got an argument inside its domain
        # (replay: the correlated parameters are finite numbers)
        nm = 'friction factor, flow split and mixing parameters are finite: every logarithm got a positive argument'
        nm2 = 'friction factor, flow split and mixing parameters are finite: every non-integer power got a non-negative base'
        if env.mode == 'sym':
            import z3 as _z3
            dl = [c for (f_, c) in core.CTX.domain if f_ != 'pow']
            dp = [c for (f_, c) in core.CTX.domain if f_ == 'pow']
            # the iterating Cheng-Todreas splits take logarithms of quantities built from square roots and powers of the
            # iterate: their positivity is beyond the uninterpreted-function abstraction, so the claim is core only for the
            # non-iterating flow splits
            env.holds(nm, core.SymBool(_z3.And(*dl)) if dl else True, key='nonfinite_correlation', core=combo[0] not in ('CTD', 'UCTD'))
            # bases of powers are often differences of logarithms; the uninterpreted logarithm only knows sign and monotonicity,
            # so this half is best-effort: a reproduced counterexample is a violation, an unreproduced one is left open
            env.holds(nm2, core.SymBool(_z3.And(*dp)) if dp else True, key='nonfinite_correlation', core=False)
        else:
            vals = [np.ravel(np.asarray(r.coolant_int_params[k], dtype=float)) for k in ('ff', 'fs', 'eddy', 'swirl')]
            fin = bool(all(np.all(np.isfinite(v)) for v in vals))
            env.holds(nm, fin, key='nonfinite_correlation', core=combo[0] not in ('CTD', 'UCTD'))
            env.holds(nm2, fin, key='nonfinite_correlation', core=False)


def body_mixing(env):
    """The mixing correlation called on its own (the way _update_coolant_int_params calls it) with a symbolic bundle Reynolds
    number: dimensionless eddy diffusivity and swirl velocity are non-negative and every logarithm / non-integer power it
    evaluates is inside its domain.  The flow-split iteration is not on this path, so the fork budget reaches every regime
    branch of the mixing correlation (incl. the clipping of the subchannel intermittency factors)."""
    combo = env.params['combo']
    n = env.params['n_ring']
    core.FEAS_TIMEOUT_MS = 1500
    with env.patch(MODS):
        r = _region(n, combo, False)
        G = r.int_flow_rate / r.bundle_params['area'] * r.bundle_params['de']
        Re = env.real('Re', lo=10.0, hi=1.0e6, nominal=2000.0)
        r.coolant_int_params['Re'] = Re
        # subchannel Reynolds numbers Re x_i De_i / De with the split factors x_i anywhere between their laminar and turbulent
        # constants (where the transition split lies: tests/test_correlations.py::test_ctd_transition_flowsplit)
        cc = r.corr_constants.get('fs') or {}
        if isinstance(cc.get('fs'), dict) and 'laminar' in cc['fs']:
            lo_ = np.minimum(np.asarray(cc['fs']['laminar'], dtype=float), np.asarray(cc['fs']['turbulent'], dtype=float))
            hi_ = np.maximum(np.asarray(cc['fs']['laminar'], dtype=float), np.asarray(cc['fs']['turbulent'], dtype=float))
        else:
            lo_, hi_ = np.full(3, 0.5), np.full(3, 1.5)
        x = [env.real('split%d' % i, lo=float(lo_[i]) * 0.999999, hi=float(hi_[i]) * 1.000001, nominal=float(0.5 * (lo_[i] + hi_[i]))) for i in range(3)]
        env.assumption('subchannel flow split factors between their laminar and turbulent constants')
        de = np.asarray(r.params['de'], dtype=float) / float(r.bundle_params['de'])
        resc = np.empty(3, dtype=object)
        for i in range(3):
            resc[i] = Re * x[i] * float(de[i])
        r.coolant_int_params['Re_sc'] = resc.astype(float) if env.mode == 'replay' else resc
        r.coolant_int_params['vel'] = 1.0
        try:
            mix = r.corr['mix'](r)
        except (KeyError, IndexError, TypeError, AttributeError, ZeroDivisionError, ValueError) as ex:
            env.fail('the mixing correlation can be evaluated in every regime', why=repr(ex)[:160], key='mixing_raises')
            env.stop()
        env.ge('dimensionless eddy diffusivity >= 0', mix[0], 0.0, core=not isinstance(mix[0], Sym), key='negative_or_nonfinite_mixing')
        env.ge('dimensionless swirl velocity >= 0', mix[1], 0.0, core=not isinstance(mix[1], Sym), key='negative_or_nonfinite_mixing')
        nm = 'mixing parameters are finite: every logarithm and non-integer power got an argument inside its domain'
        if env.mode == 'sym':
            import z3 as _z3
            dom = [c for (_f, c) in core.CTX.domain]
            env.holds(nm, core.SymBool(_z3.And(*dom)) if dom else True, key='negative_or_nonfinite_mixing')
        else:
            env.holds(nm, bool(np.isfinite(float(mix[0])) and np.isfinite(float(mix[1]))), key='negative_or_nonfinite_mixing')


def body_iterate(env):
    """One iteration of the successive approximation of the CTD/UCTD transition flow split from an
    arbitrary positive iterate: the new iterate conserves mass exactly and is positive."""
    with env.patch(MODS):
        s = [env.pos('s%d' % i, hi=1) for i in range(3)]
        env.assume(s[0] + s[1] + s[2] == 1)
        Re = env.real('Re', lo=10, hi=1e6)
        x = [env.pos('x%d' % i, hi=100) for i in range(3)]
        De_i = np.array([env.pos('De%d' % i, hi=1) for i in range(3)], dtype=object)
        De_b = env.pos('De_b', hi=1)
        Re_iL = np.array([env.pos('ReL%d' % i, hi=1e6) for i in range(3)], dtype=object)
        Re_iT = np.array([env.pos('ReT%d' % i, hi=1e7) for i in range(3)], dtype=object)
        for i in range(3):
            # the subchannel transition bounds are ordered (laminar bound below the turbulent bound) for every bundle the
            # correlation accepts; without this the intermittency factor of the arbitrary state has no meaning
            env.assume(Re_iL[i] < Re_iT[i])
        Cf_L = np.array([env.pos('CfL%d' % i, hi=1e4) for i in range(3)], dtype=object)
        Cf_T = np.array([env.pos('CfT%d' % i, hi=1e2) for i in range(3)], dtype=object)
        glc = np.array([env.nonneg('glc%d' % i, hi=1e3) for i in range(3)], dtype=object) if env.params['grid'] else None
        if env.mode == 'replay':
            De_i, Re_iL, Re_iT, Cf_L, Cf_T = [a.astype(float) for a in (De_i, Re_iL, Re_iT, Cf_L, Cf_T)]
            glc = glc.astype(float) if glc is not None else None
        lam = env.params['lam']
        pre = loops.before_loop(fs_ctd._iterate, 0, kind='for')
        args = {'Re': Re, 's': s, 'De_i': De_i, 'De_b': De_b, 'Re_iL': Re_iL, 'Re_iT': Re_iT, 'Cf_iL': Cf_L, 'Cf_iT': Cf_T,
                'GLC_i': glc, 'L': env.pos('L', hi=10), 'lam': lam}
        L0 = dict(args)
        L0.update(pre(args))
        L0['x1'], L0['x2'], L0['x3'] = x
        fbody = _for_body(fs_ctd._iterate)
        L1 = fbody(dict(L0, iteration=0))
        xn = (L1['x1_new'], L1['x2_new'], L1['x3_new'])
        env.eq('new iterate conserves mass: sum s_i x_i = 1', s[0] * xn[0] + s[1] * xn[1] + s[2] * xn[2], 1.0, tol=1e-9)
        # (positivity of the new iterate is not claimed here: from an *arbitrary* iterate with unrelated subchannel
        # constants it does not hold, and such a state is not one the iteration reaches -- positivity of the split the
        # real routines return is claimed on the eval instances, where iterate and constants come from a real bundle)
        if '__returned' in L1:
            r = L1['__return']
            env.eq('returned split conserves mass', s[0] * r[0] + s[1] * r[1] + s[2] * r[2], 1.0, tol=1e-9)


def body_gradient(env):
    """Cheng-Todreas family, laminar and turbulent regimes: the split factors are constants of the geometry (no symbolic
    input), so this instance is a concrete evaluation (enumeration of bundles), listed as such: the pressure gradient
    Cf_i x_i^(2-m) / De_i^(1+m) is the same for the three subchannel types (m = 1 laminar, 0.18 turbulent)."""
    fs, n = env.params['fs'], env.params['n_ring']
    r = _region(n, (fs, fs, 'MIT'), False)
    cc = r.corr_constants['fs']
    De = np.asarray(r.params['de'], dtype=float)
    for reg, m in (('laminar', 1.0), ('turbulent', 0.18)):
        x = np.asarray(cc['fs'][reg], dtype=float)
        Cf = np.asarray(cc['Cf_sc'][reg], dtype=float)
        g = Cf * x ** (2 - m) / De ** (1 + m)
        env.holds('%s %s: pressure gradient equal over interior, edge and corner subchannels (1e-9 relative)' % (fs, reg),
                  bool(np.all(np.abs(g / g[0] - 1) < 1e-9)), key='pressure_gradients_differ')
        N = [r.subchannel.n_sc['coolant'][k] for k in ('interior', 'edge', 'corner')]
        A = np.asarray(r.params['area'], dtype=float)
        env.holds('%s %s: split conserves mass (1e-12 relative)' % (fs, reg),
                  abs(float(np.dot(np.array(N) * A, x)) / float(r.bundle_params['area']) - 1) < 1e-12, key='mass_not_conserved')


def body_gradient_grid(env):
    """Cheng-Todreas family with spacer grids given by a correlation (REH / CDD), laminar and turbulent bundle Reynolds numbers:
    the split the real routines return (successive approximation) gives the three subchannel types the same pressure loss over
    the region, friction f_i L / De_i plus the loss of *all* grids of the region, each times x_i^2.  Concrete evaluation per
    enumerated bundle / grid count / regime (no symbolic input); tolerance 1e-3 relative (the iteration stops at its own
    tolerance: 2e-5 observed on the pinned tree)."""
    fs, n, ng, gcorr = env.params['fs'], env.params['n_ring'], env.params['n_grid'], env.params['grid_corr']
    sg = {'corr': gcorr, 'corr_coeff': None, 'loss_coeff': None, 'axial_positions': [0.02 * (i + 1) for i in range(ng)], 'solidity': None}
    r = fixtures.make_rodded(n, 1, fr=1.0, corr=(fs, fs, fs), coolant=fixtures.fixed_material(), duct=fixtures.duct_material(), spacer_grid=sg)
    r.z = [0.0, 0.2]
    for Re in (200.0, 5.0e4):
        fr = Re * r.coolant.viscosity * r.bundle_params['area'] / r.bundle_params['de']
        c = r.clone(new_flowrate=fr)
        c.z = [0.0, 0.2]
        c._init_static_correlated_params(623.15)
        p = c.coolant_int_params
        x = np.asarray(p['fs'], dtype=float)
        De = np.asarray(c.params['de'], dtype=float)
        Rei = float(p['Re']) * x * De / float(c.bundle_params['de'])
        cc = c.corr_constants['ff']
        ReL, ReT = cc['Re_bnds']
        if float(p['Re']) <= ReL:
            reg, f = 'laminar', np.asarray(cc['Cf_sc']['laminar'], dtype=float) / Rei
        elif float(p['Re']) >= ReT:
            reg, f = 'turbulent', np.asarray(cc['Cf_sc']['turbulent'], dtype=float) / Rei ** 0.18
        else:
            env.holds('fixture: Re = %g lies outside the transition regime' % Re, False)
            continue
        loss = (f * (c.z[1] - c.z[0]) / De + float(p['grid_loss_coeff']) * ng) * x ** 2
        env.holds('%s: friction plus the loss of all %d grids equal over interior, edge and corner subchannels (1e-3 relative)' % (reg, ng),
                  bool(np.all(np.abs(loss / loss[0] - 1) < 1e-3)), key='pressure_gradients_differ')
        N = [c.subchannel.n_sc['coolant'][k] for k in ('interior', 'edge', 'corner')]
        A = np.asarray(c.params['area'], dtype=float)
        env.holds('%s: split with grids conserves mass (1e-9 relative)' % reg,
                  abs(float(np.dot(np.array(N) * A, x)) / float(c.bundle_params['area']) - 1) < 1e-9, key='mass_not_conserved')


def body_clone_corr(env):
    """Every assembly of a Reactor is a clone of its template: a region cloned to a flow rate evaluates the same correlations
    -- the same functions, the same friction factor, flow split and mixing parameters -- as a region constructed directly with
    that flow rate (concrete evaluation per combination and flow rate; laminar, transition and turbulent bundle Reynolds numbers)."""
    combo = env.params['combo']          # (flowsplit, friction, mixing)
    n = env.params['n_ring']
    kw = dict(corr=(combo[1], combo[0], combo[2]), coolant=fixtures.fixed_material(), duct=fixtures.duct_material())
    t = fixtures.make_rodded(n, 1, fr=1.0, **kw)
    for Re in (150.0, 4000.0, 6.0e4):
        fr = Re * float(t.coolant.viscosity) * float(t.bundle_params['area']) / float(t.bundle_params['de'])
        c = t.clone(new_flowrate=fr)
        d = fixtures.make_rodded(n, 1, fr=fr, **kw)
        for k in ('fs', 'ff', 'mix'):
            env.holds('Re=%g: the clone uses the %s correlation function of the directly constructed region' % (Re, k),
                      getattr(c.corr[k], '__module__', None) == getattr(d.corr[k], '__module__', None)
                      and getattr(c.corr[k], '__name__', None) == getattr(d.corr[k], '__name__', None), key='clone_evaluates_another_correlation')
        try:
            for r_ in (c, d):
                r_._init_static_correlated_params(623.15)
        except (KeyError, IndexError, TypeError, AttributeError, ZeroDivisionError, ValueError, StopIteration) as ex:
            env.holds('Re=%g: both can be evaluated (%s)' % (Re, repr(ex)[:80]), combo[0] in ('CTD', 'UCTD') and combo[1] not in ('CTD', 'UCTD'),
                      key='clone_evaluates_another_correlation')
            continue
        for k in ('fs', 'ff', 'eddy', 'swirl', 'Re_sc'):
            a, b = np.asarray(c.coolant_int_params[k], dtype=float), np.asarray(d.coolant_int_params[k], dtype=float)
            env.holds('Re=%g: %s of the clone = %s of the directly constructed region (1e-12 relative)' % (Re, k, k),
                      a.shape == b.shape and bool(np.allclose(a, b, rtol=1e-12, atol=0, equal_nan=True)), key='clone_evaluates_another_correlation')


def _for_body(func):
    """Lift the body of the first for-loop of `func` (symx.loops works on while loops; same idea)."""
    import ast
    fdef, _ = loops._func_ast(func)
    fors = loops._loops(fdef, 'for')
    if not fors:
        raise loops.LoopShapeError('no for loop in %s' % func.__qualname__)
    return loops._compile(fors[0].body, func, '__forbody')


TRANSITION_BROKEN = None


def instances(tier):
    inst = []
    combos = list(itertools.product(FS, FF, MIX))
    for c in combos:
        heavy = c[0] in ('CTD', 'UCTD')      # the transition flow split iterates: every iteration forks
        depth = (6 if heavy else 10) if tier == 'quick' else (8 if heavy else 16)
        inst.append(dict(label='eval[fs=%s,ff=%s,mix=%s]' % c, body=body_eval, params={'combo': c, 'n_ring': 3},
                         max_paths=400, max_depth=depth, timeout_ms=15000))
    # other ring counts for the single-family combinations (the 120 combinations above use 3 rings)
    for c in (('NOV', 'NOV', 'MIT'), ('MIT', 'ENG', 'MIT'), ('SE2', 'REH', 'KC-BARE'), ('CTD', 'CTD', 'CTD'), ('UCTD', 'UCTD', 'UCTD'), ('MIT', 'CTS', 'MIT')):
        for n in ((2, 5) if tier == 'quick' else (2, 4, 5, 7, 9)):
            heavy = c[0] in ('CTD', 'UCTD')
            inst.append(dict(label='eval[fs=%s,ff=%s,mix=%s,rings=%d]' % (c + (n,)), body=body_eval, params={'combo': c, 'n_ring': n},
                             max_paths=400, max_depth=(6 if heavy else 10) if tier == 'quick' else (8 if heavy else 16), timeout_ms=15000))
    # (friction correlations that declare themselves not applicable to bare rods -- ENG, REH, NOV -- stop with the error exit)
    for c in (('CTD', 'CTD', 'CTD'), ('UCTD', 'UCTD', 'UCTD'), ('UCTD', 'CTD', 'UCTD'), ('CTD', 'CTD', 'KC-BARE')):
        for H in (0.0, 0.2):
            heavy = c[0] in ('CTD', 'UCTD')
            inst.append(dict(label='eval[fs=%s,ff=%s,mix=%s,bare rods (wire diameter 0, wire pitch %g)]' % (c + (H,)), body=body_eval,
                             params={'combo': c, 'n_ring': 3, 'bare': H}, max_paths=400,
                             max_depth=(6 if heavy else 10) if tier == 'quick' else (8 if heavy else 16), timeout_ms=15000))
    for c in (('CTD', 'CTD', 'CTD'), ('UCTD', 'UCTD', 'UCTD'), ('MIT', 'ENG', 'MIT')):
        for n in ((2, 3) if tier == 'quick' else (2, 3, 5, 9)):
            inst.append(dict(label='mixing[fs=%s,ff=%s,mix=%s,rings=%d]' % (c + (n,)), body=body_mixing, params={'combo': c, 'n_ring': n},
                             max_paths=200, max_depth=30, timeout_ms=15000))
    for fs in ('CTD', 'UCTD'):
        for n in ((2, 3, 5) if tier == 'quick' else (2, 3, 4, 5, 7, 9, 12)):
            inst.append(dict(label='ct-gradient[fs=%s,rings=%d]' % (fs, n), body=body_gradient, params={'fs': fs, 'n_ring': n}, check_vacuity=False))
    for c in (('NOV', 'NOV', 'MIT'), ('MIT', 'ENG', 'MIT'), ('SE2', 'REH', 'KC-BARE'), ('CTD', 'CTD', 'CTD'), ('UCTD', 'UCTD', 'UCTD'), ('MIT', 'CTS', 'MIT'),
              ('UCTD', 'CTD', 'UCTD'), ('CTD', 'UCTD', 'CTD')):
        inst.append(dict(label='clone-correlations[fs=%s,ff=%s,mix=%s]' % c, body=body_clone_corr, params={'combo': c, 'n_ring': 3}, check_vacuity=False))
    for fs in ('CTD', 'UCTD'):
        for n, ng, gc in (((2, 2, 'REH'), (3, 4, 'CDD'), (3, 1, 'REH')) if tier == 'quick' else
                          ((2, 1, 'REH'), (2, 2, 'REH'), (2, 4, 'CDD'), (3, 2, 'CDD'), (3, 4, 'REH'), (5, 2, 'REH'), (5, 4, 'CDD'))):
            inst.append(dict(label='ct-gradient-grid[fs=%s,rings=%d,grids=%d by %s]' % (fs, n, ng, gc), body=body_gradient_grid,
                             params={'fs': fs, 'n_ring': n, 'n_grid': ng, 'grid_corr': gc}, check_vacuity=False))
    if tier == 'thorough':
        for c in combos:
            if c[0] in ('CTD', 'UCTD') and c[1] in ('CTD', 'UCTD'):
                inst.append(dict(label='eval-grid[fs=%s,ff=%s,mix=%s]' % c, body=body_eval, params={'combo': c, 'n_ring': 3, 'grid': True},
                                 max_paths=400, max_depth=8, timeout_ms=15000))
        for grid in (False, True):
            for lam in (None, 7.0):
                inst.append(dict(label='ctd-iterate[grid=%s,lambda=%s]' % (grid, lam), body=body_iterate, params={'grid': grid, 'lam': lam},
                                 max_paths=200, max_depth=30, timeout_ms=30000))
    return inst


def main():
    a = runner.main_args()
    inst = runner.select(instances(a.tier), a.only)
    runner.run_check(
        'C12', inst, a.tier,
        explanation=('For each of the 120 correlation combinations the reader accepts, a real 3-ring bundle is built and the real '
                     'correlated-parameter routines run with a symbolic viscosity, i.e. a symbolic bundle Reynolds number in '
                     '(10, 1e6): the regime tests of the friction, flow-split and mixing modules fork, so every regime '
                     'combination is a path.  No path may end in KeyError/IndexError/TypeError; mass conservation and signs are '
                     'SMT queries per path.  One lifted iteration of the CTD/UCTD transition flow split from an arbitrary iterate '
                     'conserves mass (symbolic geometry, Reynolds bounds and friction constants).'),
        bounds={'combinations': 'all 5 x 6 x 4', 'rings': '3; 2 and 5 (quick) / 2..9 for six single-family combinations', 'Re': '(10, 1e6)', 'fork depth': '6 / 10 (quick), 8 / 16 (thorough) decisions per path for iterating / non-iterating flow splits (deeper transition iterations are cut)',
                'geometry': 'one concrete bundle for the evaluability/mass claims; fully symbolic for the iteration step'},
        outside=['equality of the pressure gradients across subchannel types and the common-gradient = bundle friction factor '
                 'identity (need the power-law normal form of DESIGN 2.1, not built)', 'ring counts other than 3 for the mixed combinations (single-family combinations also run with 2 and 5 rings / 2..9)',
                 'positivity of quantities that are uninterpreted powers/logarithms (best-effort)'],
        level_assumptions=['log10 and non-integer powers are uninterpreted functions (positive for positive bases)'])


if __name__ == '__main__':
    main()
