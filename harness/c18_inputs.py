"""C18 -- impossible or inconsistent inputs are rejected before any calculation.

Symbolic side (the solver searches for an accepted impossible input): the real validators of the
reader -- DASSH_Input.check_unrodded_regions (+ _find_rodded_regs, _check_reg_bnds,
_get_rodded_reg_bnds), check_pin, check_duct, check_core_specifications,
check_assignment_boundary_conditions, power._check_for_negative_power -- run on the data
dictionary that the real reader produced from a generated valid input, with the numeric leaves
replaced by solver variables.  On every accepting path the independent validity predicate of the
property is an SMT claim; an exception other than the error exit is a violation of its own.

Replay side (confirmation against the real program): the solver's values are written into an
input file + power CSV and the public pipeline DASSH_Input -> Reactor -> temperature_sweep runs
concretely.  Rejection anywhere (error exit before temperatures are computed) means the
counterexample does not reproduce; acceptance of an impossible input or an unhandled exception
is reported.
"""
import copy
import os
import shutil
import tempfile

import numpy as np

from symx import runner, core, geninp, npshim
from symx.core import Sym

from harness import common  # noqa: F401  (silences the loggers)

import dassh
import dassh.read_input as ri
import dassh.power as pw

MODS = [ri, pw]
_READERS = {}
SQRT3 = float(np.sqrt(3))


# ------------------------------------------------------------------ fixtures (real reader objects)
def _write(d, spec):
    asms = {}
    for nm, a in spec['asms'].items():
        asms[nm] = geninp.default_asm(**a)
    inp = geninp.write_case(d, asms, spec['assign'], core_len=spec.get('core_len', 0.4), pitch=spec.get('pitch', 0.030),
                            n_terms=spec.get('n_terms', 2), bypass_fraction=spec.get('bypass_fraction', 0.05))
    if spec.get('pin0_coeffs') is not None:
        f = os.path.join(d, 'power.csv')
        rows = np.loadtxt(f, delimiter=',')
        for i in range(rows.shape[0]):
            if rows[i, 1] == 1 and rows[i, 4] == 1:
                rows[i, 5:] = spec['pin0_coeffs']
                break
        np.savetxt(f, rows, delimiter=',', fmt='%.17g')
    if spec.get('edit') is not None:
        spec['edit'](d)
    return inp


def _reader(key, spec):
    """The reader's object for a generated valid input (cached)."""
    if key not in _READERS:
        d = tempfile.mkdtemp(prefix='dassh-verif-c18.')
        try:
            with npshim.unpatched():
                _READERS[key] = dassh.DASSH_Input(_write(d, spec))
        finally:
            shutil.rmtree(d, ignore_errors=True)
    o = copy.copy(_READERS[key])
    o.data = copy.deepcopy(_READERS[key].data.dict() if hasattr(_READERS[key].data, 'dict') else _READERS[key].data)
    return o


def _pipeline(spec, sweep=True):
    """Public path on a generated input: ('rejected'|'accepted'|'exception', info)."""
    d = tempfile.mkdtemp(prefix='dassh-verif-c18.')
    try:
        try:
            inp = dassh.DASSH_Input(_write(d, spec))
            r = dassh.Reactor(inp, path=os.path.join(d, 'out'), write_output=False)
        except SystemExit:
            return 'rejected', None
        except Exception as ex:      # noqa
            return 'exception', repr(ex)[:200]
        info = {'inp': inp, 'reactor': r}
        if sweep:
            try:
                # the first planes of the sweep (what temperature_sweep does, bounded: an accepted impossible input can ask
                # for millions of steps)
                r._data_setup()
                r._data_open()
                r.axial_step0()
                for i in range(1, min(len(r.z), 6)):
                    r.axial_step(r.z[i], r.dz[i - 1], i, False)
                try:
                    r._data_close()
                except (AttributeError, KeyError):
                    pass
            except SystemExit:
                return 'accepted', dict(info, sweep='error exit during the sweep')
            except Exception as ex:      # noqa
                return 'exception', repr(ex)[:200]
        return 'accepted', info
    finally:
        shutil.rmtree(d, ignore_errors=True)


def _run_validator(env, fn):
    """Symbolic run of a validator: 'accepted' | 'rejected' | ('exception', text)."""
    try:
        fn()
    except SystemExit:
        return 'rejected', None
    except (IndexError, KeyError, TypeError, ValueError, AttributeError, ZeroDivisionError, AssertionError) as ex:
        return 'exception', repr(ex)[:200]
    return 'accepted', None


NOEXC = 'reader and set-up either end with an error message or go through: no unhandled exception'


def _outcome(env, out, info):
    if out == 'rejected':
        env.stop()
    if out == 'exception':
        env.fail(NOEXC, why=info, key='unhandled_exception')
        env.stop()
    env.holds(NOEXC, True)


# ------------------------------------------------------------------ axial regions
def _axial_spec(k, zs, L):
    names = ['lower', 'upper', 'middle'][:k]
    # the assembly type under test is the second of two types (a validator that only looks at the first would pass a
    # one-type fixture)
    return {'asms': {'a0': {}, 'a': dict(axial=[(names[i], float(zs[i][0]), float(zs[i][1]), 0.25) for i in range(k)])},
            'assign': [('a0', 1, 1, 'FLOWRATE=0.5'), ('a', 2, 1, 'FLOWRATE=0.5')], 'core_len': float(L)}


def body_axial(env):
    k = env.params['k']
    valid = [(0.0, 0.1), (0.3, 0.4), (0.1, 0.15)][:k]
    zs = [(env.real('z_lo_%d' % i, lo=-1, hi=2, lo_strict=False, nominal=valid[i][0]),
           env.real('z_hi_%d' % i, lo=-1, hi=2, lo_strict=False, nominal=valid[i][1])) for i in range(k)]
    L = env.pos('core_length', hi=2, nominal=0.4)
    if env.mode == 'sym':
        with env.patch(MODS):
            o = _reader(('axial', k), _axial_spec(k, valid, 0.4))
            ar = o.data['Assembly']['a']['AxialRegion']
            for nm_ in o.data['Assembly']:   # 'rods' entries were added by the reader's own run of the check
                o.data['Assembly'][nm_]['AxialRegion'].pop('rods', None)
            for i, nm in enumerate(sorted(n for n in ar)):
                pass
            names = ['lower', 'upper', 'middle'][:k]
            for i, nm in enumerate(names):
                ar[nm]['z_lo'], ar[nm]['z_hi'] = zs[i]
            o.data['Core']['length'] = L
            out, info = _run_validator(env, lambda: ri.DASSH_Input.check_unrodded_regions(o))
            rods = ar.get('rods') if out == 'accepted' else None
    else:
        out, info = _pipeline(_axial_spec(k, zs, L))
        rods = info['inp'].data['Assembly']['a']['AxialRegion'].get('rods') if out == 'accepted' else None
    _outcome(env, out, info)
    for i in range(k):
        env.gt('accepted: unrodded region %d has positive height (z_hi > z_lo)' % i, zs[i][1], zs[i][0], key='axial_region_inverted')
        env.ge('accepted: unrodded region %d starts inside the core (z_lo >= 0)' % i, zs[i][0], 0.0, key='axial_region_outside_core')
        env.le('accepted: unrodded region %d ends inside the core (z_hi <= length)' % i, zs[i][1], L, key='axial_region_outside_core')
        for j in range(i + 1, k):
            env.holds('accepted: unrodded regions %d and %d do not overlap' % (i, j),
                      env.lor(zs[i][1] <= zs[j][0], zs[j][1] <= zs[i][0]), key='axial_regions_overlap')
    env.holds('accepted: a pin-bundle region was identified', rods is not None, key='no_rodded_region')
    if rods is not None:
        env.gt('accepted: the pin-bundle region has positive height', rods['z_hi'], rods['z_lo'], key='rodded_region_inverted')
        env.ge('accepted: the pin-bundle region starts inside the core', rods['z_lo'], 0.0, key='rodded_region_outside_core')
        env.le('accepted: the pin-bundle region ends inside the core', rods['z_hi'], L, key='rodded_region_outside_core')
        for i in range(k):
            env.holds('accepted: the pin-bundle region does not overlap unrodded region %d' % i,
                      env.lor(zs[i][1] <= rods['z_lo'], rods['z_hi'] <= zs[i][0]), key='rodded_region_overlap')


# ------------------------------------------------------------------ pins
def _pin_spec(n, P, D, clad, Dw, fs, lowfid=None):
    big = tuple(float(f) for f in fs)
    a = dict(n=n, P=float(P), D=float(D), Dw=float(Dw), clad=float(clad), ftf=big)
    if lowfid:
        a['lowfid'] = lowfid
    if len(big) > 2:
        a['extra'] = ['bypass_gap_flow_fraction = 0.05']
    return {'asms': {'a0': dict(n=2, ftf=(min(big) if min(big) > 0.03 else 0.2, max(big) if min(big) > 0.03 else 0.204)),
                     'a': a},
            'assign': [('a0', 1, 1, 'FLOWRATE=0.5'), ('a', 2, 1, 'FLOWRATE=0.5')], 'pitch': 1.05 * max(max(big), 0.03)}


def body_pin(env):
    n = env.params['n_ring']
    lowfid = env.params.get('lowfid')       # the assembly is run on a low-fidelity model: its pin data still enter (volume fraction, friction)
    P = env.real('pin_pitch', lo=-1, hi=1, nominal=0.0085)
    D = env.real('pin_diameter', lo=-1, hi=1, nominal=0.0070)
    clad = env.real('clad_thickness', lo=-1, hi=1, nominal=0.0003)
    Dw = env.real('wire_diameter', lo=0, hi=1, lo_strict=False, nominal=0.001)
    # the duct values in the order of the input line, which the reader does not prescribe (one or two ducts, any order)
    noms = (0.2, 0.204) if env.params.get('ducts', 1) == 1 else (0.2, 0.204, 0.19, 0.194)
    fs = [env.pos('duct_ftf_%d' % i, hi=2, nominal=v) for i, v in enumerate(noms)]
    env.assumption('wire_diameter >= 0 and duct_ftf > 0 (input template ranges / check_duct instances)')
    if env.mode == 'sym':
        with env.patch(MODS):
            o = _reader(('pin', n, lowfid, len(noms)), _pin_spec(n, 0.0085, 0.0070, 0.0003, 0.001, noms, lowfid))
            a = o.data['Assembly']['a']
            a['pin_pitch'], a['pin_diameter'], a['clad_thickness'], a['wire_diameter'] = P, D, clad, Dw
            a['duct_ftf'] = list(fs)
            out, info = _run_validator(env, lambda: ri.DASSH_Input.check_pin(o))
    else:
        out, info = _pipeline(_pin_spec(n, P, D, clad, Dw, fs, lowfid))
    _outcome(env, out, info)
    env.gt('accepted: pin pitch positive', P, 0.0, key='nonpositive_dimension')
    env.gt('accepted: pin diameter positive', D, 0.0, key='nonpositive_dimension')
    env.gt('accepted: clad thickness positive', clad, 0.0, key='nonpositive_dimension')
    env.ge('accepted: pin pitch >= pin diameter', P, D, key='pins_overlap')
    env.le('accepted: clad not thicker than the pin radius', clad, D / 2, key='clad_thicker_than_radius')
    fmin = fs[0]
    for f in fs[1:]:
        fmin = core.sym_min(fmin, f) if env.mode == 'sym' else min(fmin, f)
    if not lowfid:
        env.le('accepted: wire not thicker than the gap between pins', Dw, P - D, key='wire_too_thick')
    else:
        # a bundle that does not fit is rejected by the region set-up; among the inputs that survive it the wire must fit too
        env.holds('accepted and the bundle fits inside the duct: wire not thicker than the gap between pins',
                  env.lor(SQRT3 * (n - 1) * P + D + 2 * Dw > fmin, Dw <= P - D), key='wire_too_thick')
    if not lowfid:
        # (for a low-fidelity assembly the reader leaves this test to the region set-up; the validator alone is not the last word)
        env.le('accepted: the pin bundle fits inside the duct', SQRT3 * (n - 1) * P + D + 2 * Dw, fmin, key='pins_do_not_fit')


# ------------------------------------------------------------------ ducts
def _duct_spec(nb, fa, fb, pitch):
    b = dict(ftf=tuple(float(x) for x in fb))
    if nb > 1:
        b['extra'] = ['bypass_gap_flow_fraction = 0.05']
    return {'asms': {'a': dict(ftf=tuple(float(x) for x in fa)), 'b': b},
            'assign': [('a', 1, 1, 'FLOWRATE=0.5'), ('b', 2, 1, 'FLOWRATE=0.5')], 'pitch': float(pitch)}


def body_duct(env):
    nb = env.params['n_duct_b']
    va = (0.026, 0.028)
    vb = (0.026, 0.028) if nb == 1 else (0.0245, 0.0255, 0.0265, 0.028)
    fa = [env.real('a_ftf_%d' % i, lo=-1, hi=2, nominal=va[i]) for i in range(2)]
    fb = [env.real('b_ftf_%d' % i, lo=-1, hi=2, nominal=vb[i]) for i in range(2 * nb)]
    pitch = env.pos('assembly_pitch', hi=3, nominal=0.030)
    if env.mode == 'sym':
        with env.patch(MODS):
            o = _reader(('duct', nb), _duct_spec(nb, va, vb, 0.030))
            o.data['Assembly']['a']['duct_ftf'] = list(fa)
            o.data['Assembly']['b']['duct_ftf'] = list(fb)
            o.data['Core']['assembly_pitch'] = pitch
            # check_pin too: the (fixed, valid) pin bundle must fit inside the symbolic ducts for the input to get past the reader
            out, info = _run_validator(env, lambda: (ri.DASSH_Input.check_pin(o), ri.DASSH_Input.check_duct(o)))
    else:
        out, info = _pipeline(_duct_spec(nb, fa, fb, pitch))
    _outcome(env, out, info)
    mx = core.sym_max if env.mode == 'sym' else max
    for nm, f in (('a', fa), ('b', fb)):
        for i, x in enumerate(f):
            env.gt('accepted: assembly %s duct flat-to-flat value %d positive' % (nm, i), x, 0.0, key='nonpositive_dimension')
            env.lt('accepted: assembly %s duct flat-to-flat value %d smaller than the assembly pitch' % (nm, i), x, pitch, key='duct_not_smaller_than_pitch')
            for j in range(i + 1, len(f)):
                env.holds('accepted: assembly %s duct values %d and %d differ (no wall or bypass gap of zero thickness)' % (nm, i, j),
                          env.lor(x < f[j], f[j] < x), key='zero_thickness_duct_or_bypass')
    oa, ob = fa[0], fb[0]
    for x in fa[1:]:
        oa = mx(oa, x)
    for x in fb[1:]:
        ob = mx(ob, x)
    env.le('accepted: outer duct sizes of the two assembly types agree (a - b <= 1.1e-9)', oa - ob, 1.1e-9, key='unequal_outer_ducts')
    env.le('accepted: outer duct sizes of the two assembly types agree (b - a <= 1.1e-9)', ob - oa, 1.1e-9, key='unequal_outer_ducts')


# ------------------------------------------------------------------ boundary conditions / core
BC_ASSIGN = [('a', 1, 1), ('a', 2, 1), ('a', 2, 3), ('a', 2, 6)]     # a core map with unassigned positions between assignments


def _bc_spec(which=None, text=None):
    assign = []
    for i, (t, r, p) in enumerate(BC_ASSIGN):
        assign.append((t, r, p, text if i == which else 'FLOWRATE=0.5'))
    return {'asms': {'a': {}}, 'assign': assign}


def _bc_slots(o):
    return [i for i, a in enumerate(o.data['Assignment']['ByPosition']) if a != []]


def body_bc(env):
    kind, which = env.params['kind'], env.params['which']
    v = env.real('bc_value', lo=-1e4, hi=1e4, nominal={'flowrate': 0.5, 'outlet_temp': 700.0, 'delta_temp': 50.0}[kind])
    if env.mode == 'sym':
        with env.patch(MODS):
            o = _reader(('bc',), _bc_spec())
            slots = _bc_slots(o)
            env.holds('fixture: the core map has unassigned positions between the assignments', slots != list(range(len(slots))))
            o.data['Assignment']['ByPosition'][slots[which]][2] = {kind: v}
            out, info = _run_validator(env, lambda: ri.DASSH_Input.check_assignment_boundary_conditions(o))
    else:
        env.holds('fixture: the core map has unassigned positions between the assignments', True)
        out, info = _pipeline(_bc_spec(which, '%s=%r' % (kind.upper(), float(v))))
    _outcome(env, out, info)
    env.gt('accepted: boundary condition value (%s) of assignment %d positive' % (kind, which), v, 0.0, key='nonpositive_boundary_condition')


def body_bc_missing(env):
    """No / several boundary condition keywords on one assignment line: rejected (enumeration of the keyword sets and lines)."""
    for which in range(len(BC_ASSIGN)):
        for keys in ((), ('flowrate', 'outlet_temp'), ('flowrate', 'delta_temp'), ('outlet_temp', 'delta_temp'), ('flowrate', 'outlet_temp', 'delta_temp')):
            with env.patch(MODS):
                o = _reader(('bc',), _bc_spec())
                o.data['Assignment']['ByPosition'][_bc_slots(o)[which]][2] = {k: 1.0 for k in keys}
                out, info = _run_validator(env, lambda: ri.DASSH_Input.check_assignment_boundary_conditions(o))
            env.holds('assignment %d with boundary condition keywords %s: rejected with an error message' % (which, list(keys) or 'none'),
                      out == 'rejected', key='missing_boundary_condition')


def body_core(env):
    L = env.real('core_length', lo=-1, hi=10, nominal=0.4)
    pitch = env.real('assembly_pitch', lo=-1, hi=3, nominal=0.03)
    bf = env.real('bypass_fraction', lo=0, hi=1, lo_strict=False, nominal=0.05)
    env.assumption('0 <= bypass_fraction <= 1 (input template range)')
    spec = {'asms': {'a': {}}, 'assign': [('a', 1, 1, 'FLOWRATE=0.5')]}
    if env.mode == 'sym':
        with env.patch(MODS):
            o = _reader(('core',), spec)
            o.data['Core']['length'], o.data['Core']['assembly_pitch'], o.data['Core']['bypass_fraction'] = L, pitch, bf
            o.data['Core']['gap_model'] = 'flow'
            out, info = _run_validator(env, lambda: ri.DASSH_Input.check_core_specifications(o))
    else:
        out, info = _pipeline(dict(spec, core_len=float(L), pitch=float(pitch), bypass_fraction=float(bf)))
    _outcome(env, out, info)
    env.gt('accepted: core length positive', L, 0.0, key='nonpositive_dimension')
    env.gt('accepted: assembly pitch positive', pitch, 0.0, key='nonpositive_dimension')
    env.gt('accepted: flowing gap model has a positive gap flow fraction', bf, 0.0, key='flow_model_without_flow')


# ------------------------------------------------------------------ power profile
def body_power(env):
    nt = env.params['n_terms']
    nom = [1000.0, 0.0, 0.0, 0.0][:nt]
    c = [env.real('c%d' % i, lo=-1e6, hi=1e6, nominal=nom[i]) for i in range(nt)]
    zs = env.real('z_star', lo=-0.5, hi=0.5, lo_strict=False, nominal=0.0)
    spec = {'asms': {'a': {}}, 'assign': [('a', 1, 1, 'FLOWRATE=0.5')], 'n_terms': nt}
    if env.mode == 'sym':
        with env.patch(MODS):
            prof = np.empty((1, 1, nt), dtype=object)
            for i in range(nt):
                prof[0, 0, i] = c[i]
            out, info = _run_validator(env, lambda: pw._check_for_negative_power(prof, 'pins', 1))
    else:
        # CSV coefficients are in W/m; the reader divides by 100: the sign pattern is unchanged
        out, info = _pipeline(dict(spec, pin0_coeffs=[float(x) for x in c]))
    _outcome(env, out, info)
    p = 0.0
    for i in reversed(range(nt)):
        p = p * zs + c[i]
    env.ge('accepted: the linear power profile is non-negative everywhere in the power cell (arbitrary relative height)', p, 0.0,
           key='negative_power_profile:order%d' % (nt - 1))


def _edit_power(fn):
    def edit(d):
        f = os.path.join(d, 'power.csv')
        rows = np.loadtxt(f, delimiter=',')
        np.savetxt(f, fn(rows), delimiter=',', fmt='%.17g')
    return edit


def _drop(rows, cond):
    return rows[~cond(rows)]


def _set(rows, cond, col, val):
    rows = rows.copy()
    rows[cond(rows), col] = val
    return rows


def _extra_item(rows, asm, comp):
    sel = rows[(rows[:, 0] == asm) & (rows[:, 1] == comp)]
    last = sel[sel[:, 4] == sel[:, 4].max()].copy()
    last[:, 4] += 1
    return np.vstack([rows, last])


POWER_FILES = {
    'an assigned assembly is missing from the file': lambda r: _drop(r, lambda x: x[:, 0] == 2),
    'one pin is missing in one assembly': lambda r: _drop(r, lambda x: (x[:, 0] == 2) & (x[:, 1] == 1) & (x[:, 4] == 3)),
    'one pin has a different axial upper bound': lambda r: _set(r, lambda x: (x[:, 0] == 1) & (x[:, 1] == 1) & (x[:, 4] == 2), 3, 0.3),
    'duct cells have different axial bounds than pins': lambda r: _set(r, lambda x: (x[:, 0] == 1) & (x[:, 1] == 2), 3, 0.3),
    'the last duct element is missing in one assembly (pins complete)': lambda r: _drop(r, lambda x: (x[:, 0] == 2) & (x[:, 1] == 2) & (x[:, 4] == x[(x[:, 0] == 2) & (x[:, 1] == 2), 4].max())),
    'the last coolant subchannel is missing in one assembly (pins complete)': lambda r: _drop(r, lambda x: (x[:, 0] == 1) & (x[:, 1] == 3) & (x[:, 4] == x[(x[:, 0] == 1) & (x[:, 1] == 3), 4].max())),
    'one duct element too many in one assembly (pins complete)': lambda r: _extra_item(r, 1, 2),
    'one coolant subchannel too many in one assembly (pins complete)': lambda r: _extra_item(r, 2, 3),
    'negative constant pin power': lambda r: _set(r, lambda x: (x[:, 0] == 1) & (x[:, 1] == 1) & (x[:, 4] == 1), 5, -10.0),
    'pin index starts at 2': lambda r: _set(r, lambda x: (x[:, 0] == 1) & (x[:, 1] == 1) & (x[:, 4] == 1), 4, 8.0),
}


def body_power_files(env):
    """Malformed user power files (file structure: no numeric dimension -- enumeration): the public pipeline must end
    with an error message, never with an unhandled exception and never accept."""
    spec = {'asms': {'a': {}}, 'assign': [('a', 1, 1, 'FLOWRATE=0.5'), ('a', 2, 1, 'FLOWRATE=0.5')]}
    out, info = _pipeline(dict(spec), sweep=False)
    env.holds('the unmodified generated power file is accepted (witness)', out == 'accepted')
    for name, fn in POWER_FILES.items():
        out, info = _pipeline(dict(spec, edit=_edit_power(fn)), sweep=True)
        env.holds('power file in which %s: ends with an error message' % name, out == 'rejected', key='malformed_power_file:' + name)


def instances(tier):
    inst = []
    inst.append(dict(label='power-file-structure', body=body_power_files, params={}, check_vacuity=False))
    for k in (1, 2, 3):
        inst.append(dict(label='axial-regions[k=%d]' % k, body=body_axial, params={'k': k}, max_paths=4000, max_depth=60, timeout_ms=60000))
    for n in ((2, 3) if tier == 'quick' else (2, 3, 4, 6, 9)):
        inst.append(dict(label='pin[rings=%d]' % n, body=body_pin, params={'n_ring': n}))
    for n in ((3,) if tier == 'quick' else (2, 3, 5)):
        inst.append(dict(label='pin[rings=%d,ducts=2]' % n, body=body_pin, params={'n_ring': n, 'ducts': 2}, max_paths=4000))
    for lf in ('simple', '6node'):
        inst.append(dict(label='pin[rings=3,low-fidelity model %s]' % lf, body=body_pin, params={'n_ring': 3, 'lowfid': lf}))
    for nb in (1, 2):
        inst.append(dict(label='duct[ducts of type b=%d]' % nb, body=body_duct, params={'n_duct_b': nb}, max_paths=4000, max_depth=80))
    for kind in ('flowrate', 'outlet_temp', 'delta_temp'):
        for which in range(len(BC_ASSIGN)):
            inst.append(dict(label='boundary-condition[%s,assignment %d]' % (kind, which), body=body_bc, params={'kind': kind, 'which': which}))
    inst.append(dict(label='boundary-condition[keyword sets]', body=body_bc_missing, params={}, check_vacuity=False))
    inst.append(dict(label='core-section', body=body_core, params={}))
    for nt in ((1, 2, 3) if tier == 'quick' else (1, 2, 3, 4)):
        inst.append(dict(label='power-profile[terms=%d]' % nt, body=body_power, params={'n_terms': nt}, max_paths=4000, max_depth=40))
    return inst


def main():
    a = runner.main_args()
    inst = runner.select(instances(a.tier), a.only)
    runner.run_check(
        'C18', inst, a.tier,
        explanation=('The real validators of the reader run on the data dictionary of a real DASSH_Input (generated valid input) whose numeric '
                     'leaves are solver variables; on every accepting path the validity predicate of the property (positive heights, inside '
                     'the core, disjoint, one pin-bundle region; positive dimensions, pins fit, wire and clad limits; duct values positive, '
                     'distinct, below the pitch, equal outer ducts; positive boundary condition; non-negative power profile at an arbitrary '
                     'height) is an SMT claim, and any exception other than the error exit is reported.  Counterexamples are confirmed by '
                     'writing an input file with the solver values and running the public pipeline DASSH_Input -> Reactor -> temperature_sweep.'),
        bounds={'axial regions': '1..3 unrodded regions, bounds and core length symbolic', 'rings': '2..3 (quick) / up to 9',
                'assembly types': '2 (duct check), 1..2 ducts', 'power profile': 'polynomial order 0..2 (quick) / 0..3, one item',
                'values': 'every dimension in (-1, 2) m, boundary-condition value in (-1e4, 1e4)'},
        outside=['ConfigObj schema validation (types, template ranges), unknown material / correlation names, malformed power files '
                 '(string- and file-level: no numeric dimension for the solver)', 'acceptance => the whole sweep runs without exception for every '
                 'accepted input (only the validators are symbolic; the pipeline is run for counterexamples)',
                 'validators not listed (fuel / pin model, spacer grid, tables, orificing)'],
        level_assumptions=['template ranges: wire_diameter >= 0, 0 <= bypass_fraction <= 1'])


if __name__ == '__main__':
    main()
