"""C01 -- every assembly coolant energy balance closes at every axial step.

Real code executed symbolically: RoddedRegion._calc_coolant_int_temp, _calc_int_sc_power,
calculate_ht_constants, _setup_conduction_constants, _setup_convection_constants,
_setup_flowrate, _setup_ht_constants, _setup_region, sc_mfr, avg_coolant_int_temp,
avg_coolant_temp, _calc_coolant_byp_temp, update_ebal, update_ebal_byp;
SingleNodeHomogeneous._calc_coolant_temp, MultiNodeHomogeneous._calc_coolant_temp;
DASSH_Region._activate_base; Assembly.calculate (power tally).
One explicit step from an arbitrary state: all temperatures, powers, the step, flow rate,
material properties, correlated parameters and the derived geometry are solver variables.
"""
import copy

import numpy as np

from symx import runner, core
from harness.common import StubSelf
from harness import symregion as SR

import dassh.region_rodded as rrm
import dassh.region_unrodded as rum
import dassh.region as rgm
import dassh.assembly as am

MODS = SR.MODS + [am]


def _sum(xs):
    t = 0.0
    for x in xs:
        t = t + x
    return t


def _vec(env, name, n, lo=None, hi=None, lo_strict=True):
    a = np.empty(n, dtype=object)
    for i in range(n):
        a[i] = env.real('%s%d' % (name, i), lo=lo, hi=hi, lo_strict=lo_strict)
    return a.astype(float) if env.mode == 'replay' else a


def body_interior(env):
    n, nduct = env.params['n_ring'], env.params['n_duct']
    power = env.params['power']
    with env.patch(MODS):
        r = SR.sym_rodded(env, n, nduct, wwdir=env.params['wwdir'], conv_approx=env.params['conv_approx'])
        sc = r.subchannel
        nsc, nint = sc.n_sc['coolant']['total'], sc.n_sc['coolant']['interior']
        dz = env.pos('dz', hi=1)
        qp = _vec(env, 'q_pin', r.n_pin, lo=0, hi=1e6, lo_strict=False) if power in ('pins', 'both') else None
        qc = _vec(env, 'q_cool', nsc, lo=0, hi=1e6, lo_strict=False) if power in ('cool', 'both') else None
        T = r.temp['coolant_int']
        cp = r.coolant.heat_capacity
        dT = r._calc_coolant_int_temp(dz, qp, qc, ebal=True)
        mfr = r.sc_mfr
        rise = _sum(mfr[i] * cp * dT[i] for i in range(nsc))
        src = r.ebal['power'] + _sum(r.ebal['duct'][c] for c in range(len(r.ebal['duct'])))
        scale = 1.0
        env.eq('enthalpy rise of all subchannels = heat generated + heat through the duct wall', rise, src, scale=scale, tol=1e-8)
        tot_q = (0.0 if qp is None else _sum(qp)) + (0.0 if qc is None else _sum(qc))
        env.eq('power tally = dz * (pin power + coolant power)', r.ebal['power'], dz * tot_q, tol=1e-8)
        # heat through the wall as tallied = film flux * contact length * dz, cell by cell
        for c in range(len(r.ebal['duct'])):
            ty = sc.type[nint + c]
            h = r.coolant_int_params['htc'][ty]
            Lc = r.pin_pitch if ty == 1 else 2 * r.d['wcorner'][0, 1]
            if r._conv_approx:
                flux = (r.temp['duct_mw'][0, c] - T[nint + c]) / (1 / h + r.d['wall'][0] / 2 / r.duct.thermal_conductivity)
            else:
                flux = h * (r.temp['duct_surf'][0, 0, c] - T[nint + c])
            env.eq('wall cell %d: tallied heat = flux * contact length * dz' % c, r.ebal['duct'][c], dz * Lc * flux, tol=1e-8)
        # mass: subchannel flows sum to the interior flow when the split conserves mass (FS invariant)
        fs = r.coolant_int_params['fs']
        N = [sc.n_sc['coolant'][k] for k in ('interior', 'edge', 'corner')]
        A = r.params['area']
        fs_ok = (_sum(N[i] * A[i] * fs[i] for i in range(3)) == r.bundle_params['area'])
        if env.mode == 'sym':
            env.holds('subchannel flows sum to the bundle flow (given a mass-conserving split)',
                      env.implies(fs_ok, _sum(mfr[i] for i in range(nsc)) == r.int_flow_rate))


def body_interior_columns(env):
    """Same statement as body_interior, decomposed so that every query is small and the check
    scales with the ring count: (1) the update and the wall-heat tally are affine in the
    temperature fields (one query per cell, with fully symbolic fields); (2) for the zero field
    the enthalpy rise equals the tallied power; (3) for every unit field (one coolant cell or
    one wall cell at 1, the rest 0, no power) the mass-flow weighted rise equals the tallied wall
    heat -- i.e. every column of the exchange operator (conduction, eddy mixing, swirl) sums to
    zero in enthalpy.  (1)-(3) together are the step identity for arbitrary fields."""
    n, nduct = env.params['n_ring'], env.params['n_duct']
    with env.patch(MODS):
        r = SR.sym_rodded(env, n, nduct, wwdir=env.params['wwdir'], conv_approx=env.params['conv_approx'])
        sc = r.subchannel
        nsc, nint = sc.n_sc['coolant']['total'], sc.n_sc['coolant']['interior']
        nd = sc.n_sc['duct']['total']
        dz = env.pos('dz', hi=1)
        qp = _vec(env, 'q_pin', r.n_pin, lo=0, hi=1e6, lo_strict=False)
        qc = _vec(env, 'q_cool', nsc, lo=0, hi=1e6, lo_strict=False)
        cp = r.coolant.heat_capacity
        Tsym = r.temp['coolant_int']
        Wsym_s = r.temp['duct_surf']
        Wsym_m = r.temp['duct_mw']
        mfr = r.sc_mfr
        obj = env.mode == 'sym'

        def zeros(shape):
            return np.full(shape, 0.0, dtype=object) if obj else np.zeros(shape)

        def run(T, Ws, Wm, p, c):
            r.temp['coolant_int'] = T
            r.temp['duct_surf'] = Ws
            r.temp['duct_mw'] = Wm
            r.ebal['power'] = 0.0
            r.ebal['duct'] = zeros(nd)
            dT = r._calc_coolant_int_temp(dz, p, c, ebal=True)
            return dT, r.ebal['power'], r.ebal['duct']
        Z, ZS, ZM = zeros(nsc), zeros((nduct, 2, nd)), zeros((nduct, nd))
        dT0, pw0, du0 = run(Z.copy(), ZS.copy(), ZM.copy(), qp, qc)
        env.eq('zero field: enthalpy rise = tallied power', _sum(mfr[i] * cp * dT0[i] for i in range(nsc)), pw0, tol=1e-8)
        env.eq('power tally = dz * (pin power + coolant power)', pw0, dz * (_sum(qp) + _sum(qc)), tol=1e-8)
        for c in range(nd):
            env.eq('zero field: no wall heat (cell %d)' % c, du0[c], 0.0)
        cols, wcols = [], []
        for j in range(nsc):
            T = Z.copy()
            T[j] = 1.0
            dTj, pwj, duj = run(T, ZS.copy(), ZM.copy(), None, None)
            cols.append((dTj, duj))
            env.eq('unit coolant field %d: weighted rise = tallied wall heat (exchange terms sum to zero)' % j,
                   _sum(mfr[i] * cp * dTj[i] for i in range(nsc)), _sum(duj), tol=1e-8)
            env.eq('unit coolant field %d: no power tallied' % j, pwj, 0.0)
        for c in range(nd):
            Ws, Wm = ZS.copy(), ZM.copy()
            Ws[0, 0, c] = 1.0
            Wm[0, c] = 1.0
            dTc, pwc, duc = run(Z.copy(), Ws, Wm, None, None)
            wcols.append((dTc, duc))
            env.eq('unit wall field %d: weighted rise = tallied wall heat' % c,
                   _sum(mfr[i] * cp * dTc[i] for i in range(nsc)), _sum(duc), tol=1e-8)
        # affinity with fully symbolic fields
        dTs, pws, dus = run(Tsym, Wsym_s, Wsym_m, qp, qc)
        wall = (lambda c: Wsym_m[0, c]) if r._conv_approx else (lambda c: Wsym_s[0, 0, c])

        def nz(x):
            return not (isinstance(x, (int, float)) and x == 0.0)
        for i in range(nsc):
            expect = dT0[i]
            for j in range(nsc):
                if nz(cols[j][0][i]):
                    expect = expect + Tsym[j] * cols[j][0][i]
            for c in range(nd):
                if nz(wcols[c][0][i]):
                    expect = expect + wall(c) * wcols[c][0][i]
            env.eq('cell %d: update is affine in the fields (superposition of the unit responses)' % i, dTs[i], expect, tol=1e-8)
        for c in range(nd):
            expect = 0.0
            for j in range(nsc):
                if nz(cols[j][1][c]):
                    expect = expect + Tsym[j] * cols[j][1][c]
            for c2 in range(nd):
                if nz(wcols[c2][1][c]):
                    expect = expect + wall(c2) * wcols[c2][1][c]
            env.eq('wall cell %d: tallied heat is linear in the fields' % c, dus[c], expect, tol=1e-8)
        env.eq('symbolic fields: same power tally', pws, pw0, tol=1e-9)


def body_bypass(env):
    n, nduct = env.params['n_ring'], env.params['n_duct']
    with env.patch(MODS):
        r = SR.sym_rodded(env, n, nduct, conv_approx=env.params['conv_approx'])
        sc = r.subchannel
        nd = sc.n_sc['bypass']['total']
        nint = sc.n_sc['coolant']['interior']
        dz = env.pos('dz', hi=1)
        cp = r.coolant.heat_capacity
        dT = r._calc_coolant_byp_temp(dz, ebal=True)
        for i in range(r.n_bypass):
            start = sc.n_sc['coolant']['total'] + nd + 2 * i * nd
            typ = sc.type[start:start + nd]
            mfr = [r.byp_flow_rate[i] * r.bypass_params['area'][i, typ[c] - 5] / r.bypass_params['total area'][i] for c in range(nd)]
            rise = _sum(mfr[c] * cp * dT[i, c] for c in range(nd))
            src = _sum(r.ebal['duct_byp_in'][i][c] + r.ebal['duct_byp_out'][i][c] for c in range(nd))
            env.eq('bypass %d: enthalpy rise = heat from the two adjacent walls' % i, rise, src, tol=1e-8)
            env.eq('bypass %d: cell flows sum to the bypass flow' % i, _sum(mfr), r.byp_flow_rate[i], tol=1e-9)
            for c in range(nd):
                ty = typ[c] - 5
                h = r.coolant_byp_params['htc'][i, ty]
                Lin = r.L[1][1] if ty == 0 else 2 * r.d['wcorner'][i, 1]
                if not r._conv_approx:
                    env.eq('bypass %d cell %d: tallied heat from the inner wall = flux * length * dz' % (i, c),
                           r.ebal['duct_byp_in'][i][c], dz * Lin * h * (r.temp['duct_surf'][i, 1, c] - r.temp['coolant_byp'][i, c]), tol=1e-8)
        env.eq('interior + bypass flows = assembly flow', r.int_flow_rate + _sum(r.byp_flow_rate), r.total_flow_rate, tol=1e-9)


def body_calculate(env):
    """The whole RoddedRegion.calculate (duct walls, interior, bypass dispatch) for 1-3 ducts: runs
    without exception and the coolant enthalpy rise of interior + bypass equals the tallies."""
    n, nduct = env.params['n_ring'], env.params['n_duct']
    with env.patch(MODS):
        r = SR.sym_rodded(env, n, nduct, stagnant=env.params.get('stagnant', False))
        r._update_coolant_int_params = lambda *a, **k: None
        r._update_coolant_byp_params = lambda *a, **k: None
        env.stub('correlated-parameter updates at the end of the step are no-ops (they do not enter this step)')
        sc = r.subchannel
        nsc, nd = sc.n_sc['coolant']['total'], sc.n_sc['duct']['total']
        dz = env.pos('dz', hi=1)
        qp = _vec(env, 'q_pin', r.n_pin, lo=0, hi=1e6, lo_strict=False)
        t_gap = _vec(env, 'Tgap', nd, lo=200, hi=3000)
        h_gap = _vec(env, 'htc_gap', 2, lo=0, hi=1e7)
        import copy as _copy
        # reference: the same sequence of sub-steps called directly on a copy of the state
        ref = _copy.copy(r)
        ref.temp = {k: v.copy() for k, v in r.temp.items()}
        ref.ebal = {k: (v.copy() if hasattr(v, 'copy') else v) for k, v in r.ebal.items()}
        ref._calc_duct_temp(None, t_gap, h_gap, False)
        dT_ref = ref._calc_coolant_int_temp(dz, qp, None, True)
        dB_ref = None
        if nduct > 1:
            dB_ref = (ref._calc_coolant_byp_temp_stagnant(dz, True) if env.params.get('stagnant', False)
                      else ref._calc_coolant_byp_temp(dz, True))
        T0 = r.temp['coolant_int'].copy()
        B0 = r.temp['coolant_byp'].copy() if nduct > 1 else None
        try:
            r.calculate(dz, {'pins': qp, 'cool': None, 'duct': None}, t_gap, h_gap, False, True)
        except (ValueError, TypeError, IndexError, KeyError) as ex:
            env.fail('RoddedRegion.calculate runs for %d ducts' % nduct, why=repr(ex)[:200], key='calculate_raises')
            env.stop()
        for i in range(nsc):
            env.eq('calculate(): interior cell %d advanced by the interior energy equation' % i,
                   r.temp['coolant_int'][i], T0[i] + dT_ref[i], tol=1e-10)
        if nduct > 1:
            for i in range(r.n_bypass):
                for c in range(nd):
                    env.eq('calculate(): bypass %d cell %d advanced by the %s bypass equation' % (
                        i, c, 'stagnant' if env.params.get('stagnant', False) else 'flowing'),
                        r.temp['coolant_byp'][i, c], B0[i, c] + dB_ref[i, c], tol=1e-10)
        env.eq('calculate(): same power tally', r.ebal['power'], ref.ebal['power'], tol=1e-10)


def body_lowfid(env):
    model = env.params['model']
    adiabatic = env.params['adiabatic']
    with env.patch(MODS):
        r = SR.sym_unrodded(env, model, env.params['conv_approx'])
        dz = env.pos('dz', hi=1)
        q = env.nonneg('q_refl', hi=1e7) if env.params['power'] else (None if model == 'simple' else 0.0)
        cp = r.coolant.heat_capacity
        r._mratio = env.real('convection_factor', lo=0, hi=1)
        if model == '6node':
            r._update_coolant_params = lambda *a, **k: None
            env.stub('_update_coolant_params (correlations) is a no-op: properties and htc frozen over the step')
            r._scfr = r.flow_rate / 6
            r._cond = {'adj': SR._BASE[('ur', model)]._cond['adj'], 'const': env.pos('cond_const', hi=1e3)}
        dT = r._calc_coolant_temp(dz, {'refl': q}, adiabatic, ebal=True)
        if model == 'simple':
            rise = r.flow_rate * cp * (dT if not hasattr(dT, '__len__') else dT[0])
        else:
            rise = _sum(r._scfr * cp * dT[k] for k in range(6))
        src = r.ebal['power'] + _sum(r.ebal['duct'][c] for c in range(6))
        env.eq('%s: enthalpy rise = heat generated + heat through the duct wall' % model, rise, src, tol=1e-8)
        env.eq('%s: power tally = dz * power' % model, r.ebal['power'], dz * (q if q is not None else 0.0), tol=1e-9)
        if adiabatic:
            for c in range(6):
                env.eq('%s: adiabatic: no heat through wall cell %d' % (model, c), r.ebal['duct'][c], 0.0)


def body_power_tally(env):
    """Assembly.calculate: what is tallied as delivered is dz * sum of what the region receives."""
    with env.patch(MODS):
        npin, nd, nsc = 3, 2, 4
        qp = _vec(env, 'q_pin', npin, lo=0, hi=1e6, lo_strict=False)
        qd = _vec(env, 'q_duct', nd, lo=0, hi=1e6, lo_strict=False)
        qc = _vec(env, 'q_cool', nsc, lo=0, hi=1e6, lo_strict=False)
        dz = env.pos('dz', hi=1)
        got = {}

        class Reg:
            def calculate(self, dz_, pow_j, t_gap, h_gap, adiabatic, ebal):
                got['dz'] = dz_
                got['pow'] = pow_j
                got['gap'] = (t_gap, h_gap, adiabatic, ebal)

            def calculate_pressure_drop(self, z, dz_):
                pass
        pw = StubSelf(get_power_sweep=lambda z=None: {'pins': qp, 'duct': qd, 'cool': qc, 'refl': None})
        old = {k: env.nonneg('delivered_' + k, hi=1e9) for k in ('pins', 'duct', 'cool', 'refl')}
        a = StubSelf(_bind=(am.Assembly, ['calculate']), power=pw, _z=0.0, _power_delivered=dict(old), active_region=Reg(),
                     _update_peak_coolant_temps=lambda: None, _update_peak_duct_temps=lambda: None, z=0.0)
        tg, hg = object(), object()
        a.calculate(dz, tg, hg, adiabatic=True, ebal=True)
        env.holds('the region receives the gap temperature, the gap film coefficient and the adiabatic / energy-balance options it was given',
                  got['gap'][0] is tg and got['gap'][1] is hg and got['gap'][2] is True and got['gap'][3] is True)
        env.eq('pins tally', a._power_delivered['pins'], old['pins'] + dz * _sum(qp), tol=1e-9)
        env.eq('duct tally', a._power_delivered['duct'], old['duct'] + dz * _sum(qd), tol=1e-9)
        env.eq('coolant tally', a._power_delivered['cool'], old['cool'] + dz * _sum(qc), tol=1e-9)
        env.eq('unrodded tally untouched when the region has none', a._power_delivered['refl'], old['refl'])
        env.holds('the region receives the same step and the same powers', got['dz'] is dz and got['pow']['pins'] is qp
                  and got['pow']['duct'] is qd and got['pow']['cool'] is qc)


def body_region_change(env):
    """_activate_base: the mixed-mean coolant temperature is carried over unchanged."""
    kind = env.params['kind']
    with env.patch(MODS):
        if kind[0] == 'rodded':
            old = SR.sym_rodded(env, 2, kind[1], tag='old_')
        else:
            old = SR.sym_unrodded(env, kind[0], tag='old_')
        # the new region: freshly constructed (all temperatures one), geometry symbolic
        nk = env.params['new']
        if nk[0] == 'rodded':
            new = SR.sym_rodded(env, 2, nk[1], fields=False, tag='new_')
            N = [new.subchannel.n_sc['coolant'][k] for k in ('interior', 'edge', 'corner')]
            if env.params['fs_known']:
                fs = new.coolant_int_params['fs']
                env.assume(_sum(N[i] * new.params['area'][i] * fs[i] for i in range(3)) == new.bundle_params['area'])
                env.assumption('flow split of the new region conserves mass (C12)')
            else:
                new.coolant_int_params['fs'] = np.ones(3) if env.params['fs_init'] == 'ones' else np.zeros(3)
        else:
            new = SR.sym_unrodded(env, nk[0], tag='new_', fields=False)
        Tmix = old.avg_coolant_temp
        if kind[0] == 'rodded':
            # the mixed mean is the mass-flow weighted mean of all interior and bypass cells
            sc_o = old.subchannel
            nso = sc_o.n_sc['coolant']['total']
            tot = _sum(old.sc_mfr[i] * old.temp['coolant_int'][i] for i in range(nso))
            ndo = sc_o.n_sc['bypass']['total']
            for bi in range(old.n_bypass):
                st = nso + ndo + 2 * bi * ndo
                for c in range(ndo):
                    a = old.bypass_params['area'][bi, sc_o.type[st + c] - 5]
                    tot = tot + old.byp_flow_rate[bi] * a / old.bypass_params['total area'][bi] * old.temp['coolant_byp'][bi, c]
            env.eq('mixed mean of the old region = mass-flow weighted mean of all its coolant cells',
                   Tmix * old.total_flow_rate, tot, tol=1e-9, key='mixed_mean_not_flow_weighted')
        new._activate_base(old)
        env.eq('mixed-mean coolant temperature carried over unchanged', new.avg_coolant_temp, Tmix, tol=1e-9)
        for i in range(len(new.temp['coolant_int'])):
            env.eq('new cell %d starts at the mixed mean' % i, new.temp['coolant_int'][i], Tmix, tol=1e-9)


def body_clone_flow(env):
    """Regions obtained through the real clone(new_flowrate) -- the way every assembly of a Reactor gets its regions: the
    flows the coolant update divides the heat by add up to the new flow rate (six-node: six equal node flows; pin bundle:
    interior + bypass, and the subchannel flows of the interior).  Enumeration of region kinds and two flow rates; no
    symbolic dimension (the flow-split set-up is not symbolic)."""
    from symx import fixtures
    kind = env.params['kind']
    for m in (1.7, 0.45):
        if kind[0] == 'rodded':
            t = fixtures.make_rodded(2, kind[1], byp_ff=0.05 if kind[1] > 1 else None)
        else:
            t = fixtures.make_unrodded(kind[0], fr=-1.0)
        c = t.clone(new_flowrate=m)
        if kind[0] == 'rodded':
            tot = float(c.int_flow_rate) + (float(np.sum(c.byp_flow_rate)) if kind[1] > 1 else 0.0)
            env.holds('clone to %g kg/s: interior + bypass flow = new flow rate' % m, abs(tot - m) <= 1e-12 * m, key='clone_keeps_a_stale_flow')
            typ = np.asarray(c.subchannel.type[:c.subchannel.n_sc['coolant']['total']], dtype=int)
            w = np.asarray(c.coolant_int_params['fs'], dtype=float)[typ] * np.asarray(c.params['area'], dtype=float)[typ]
            env.holds('clone to %g kg/s: flow split weights are those of the new state (finite, positive)' % m, bool(np.all(np.isfinite(w)) and np.all(w > 0)))
        elif kind[0] == '6node':
            env.holds('clone to %g kg/s: six node flows add up to the new flow rate' % m, abs(6 * float(c._scfr) - m) <= 1e-12 * m,
                      key='clone_keeps_a_stale_flow')
            env.holds('clone to %g kg/s: region flow rate is the new one' % m, float(c.flow_rate) == m, key='clone_keeps_a_stale_flow')
        else:
            env.holds('clone to %g kg/s: region flow rate is the new one' % m, float(c.flow_rate) == m, key='clone_keeps_a_stale_flow')
        env.holds('clone to %g kg/s: the template keeps its own flow' % m,
                  float(getattr(t, 'flow_rate', getattr(t, 'total_flow_rate', 0.0))) != m)


def body_sweep_balance(env):
    """Public path, adiabatic outer wall, constant-property coolant (enumeration; no symbolic dimension): over a real sweep the
    enthalpy flow gained by the interior and bypass coolant of an assembly equals the power delivered to it -- also with the
    low-flow wall approximation engaged.  1e-9 relative.  Duct-wall heating is included only with the approximation off: with
    it on, a heated wall is coupled to the coolant through its mid-wall temperature and the sweep balance is open by about 1 %
    of the power (measured; DESIGN section 5, observations) -- C01 speaks of the heat the coolant receives, which closes by tally."""
    import os
    import shutil
    import tempfile
    from symx import geninp, npshim
    import dassh
    from harness import symcore as SC
    d = tempfile.mkdtemp(prefix='dassh-verif-c01.')
    try:
        asms = {t: geninp.default_asm(**SC.TYPES[t]) for t in env.params['types']}
        assign = [(t, 1 if i == 0 else 2, 1 if i == 0 else i, 'FLOWRATE=%g' % (0.3 + 0.05 * i)) for i, t in enumerate(env.params['types'])]
        setup = ('conv_approx = True', 'conv_approx_dz_cutoff = 0.01') if env.params['conv_approx'] else ()
        inp = geninp.write_case(d, asms, assign, gap_model='none', core_len=0.05, setup_lines=setup, other_power=env.params.get('other_power', 0.0),
                                pin_power=lambda k: 3.0e4 * (1 + 0.1 * k))
        with npshim.unpatched():
            r = dassh.Reactor(dassh.DASSH_Input(inp), path=os.path.join(d, 'out'), write_output=False)
            engaged = [bool(getattr(a.rodded, '_conv_approx', False)) if a.has_rodded else None for a in r.assemblies]
            r.temperature_sweep()
            res = []
            for a in r.assemblies:
                reg = a.active_region
                cp = float(reg.coolant.heat_capacity)
                gain = float(a.flow_rate) * cp * (float(a.avg_coolant_temp) - float(r.inlet_temp))
                power = float(sum(v for v in a._power_delivered.values()))
                res.append((a.id, a.name, gain, power))
    finally:
        shutil.rmtree(d, ignore_errors=True)
    if env.params['conv_approx'] and 'dd' in env.params['types']:
        env.holds('fixture: the low-flow wall approximation is engaged in at least one pin bundle', any(e for e in engaged if e is not None))
    for aid, nm, gain, power in res:
        env.holds('assembly %d (%s): enthalpy flow gained over the sweep = power delivered (1e-9 relative)' % (aid, nm),
                  abs(gain - power) <= 1e-9 * power, key='sweep_balance_open')


def instances(tier):
    inst = []
    for types in (('a2', 'a3'), ('dd', 'a3'), ('dd', 'ur', 'u6')):
        for ca in (False, True):
            inst.append(dict(label='sweep-balance[%s,adiabatic,low-flow wall approximation=%s]' % ('-'.join(types), ca), body=body_sweep_balance,
                             params={'types': types, 'conv_approx': ca, 'other_power': 0.0 if ca else 400.0}, check_vacuity=False))
    for kind in (('simple',), ('6node',), ('rodded', 1), ('rodded', 2)):
        inst.append(dict(label='clone-flow[%s]' % '-'.join(map(str, kind)), body=body_clone_flow, params={'kind': kind}, check_vacuity=False))
    # single-identity form: small bundles only (cross-check of the decomposed form)
    for n in ((2,) if tier == 'quick' else (2, 3)):
        for nduct in (1, 2):
            for conv in ((False, True) if n == 2 else (False,)):
                for power in ('both', 'pins', 'cool', 'none'):
                    for ww in (('clockwise', 'counterclockwise') if power == 'both' else ('clockwise',)):
                        inst.append(dict(label='interior[rings=%d,ducts=%d,conv_approx=%s,power=%s,wire=%s]' % (n, nduct, conv, power, ww),
                                         body=body_interior, params={'n_ring': n, 'n_duct': nduct, 'conv_approx': conv,
                                                                     'power': power, 'wwdir': ww}, timeout_ms=240000))
    # decomposed form: scales with the ring count
    for n in ((2, 3, 4) if tier == 'quick' else (2, 3, 4, 5, 6, 7)):
        for nduct in ((1, 2) if n <= 3 else (1,)):
            for conv in (False, True):
                for ww in (('clockwise', 'counterclockwise') if n <= 3 else ('clockwise',)):
                    inst.append(dict(label='interior-columns[rings=%d,ducts=%d,conv_approx=%s,wire=%s]' % (n, nduct, conv, ww),
                                     body=body_interior_columns, params={'n_ring': n, 'n_duct': nduct, 'conv_approx': conv,
                                                                         'wwdir': ww}, timeout_ms=120000))
    for n in ((2, 3) if tier == 'quick' else (2, 3, 4, 5)):
        for nduct in (2, 3):
            for conv in (False, True):
                inst.append(dict(label='bypass[rings=%d,ducts=%d,conv_approx=%s]' % (n, nduct, conv), body=body_bypass,
                                 params={'n_ring': n, 'n_duct': nduct, 'conv_approx': conv}, timeout_ms=180000))
    for nduct in (1, 2, 3):
        inst.append(dict(label='calculate[rings=2,ducts=%d]' % nduct, body=body_calculate, params={'n_ring': 2, 'n_duct': nduct},
                         timeout_ms=180000))
    inst.append(dict(label='calculate[rings=2,ducts=2,stagnant bypass]', body=body_calculate,
                     params={'n_ring': 2, 'n_duct': 2, 'stagnant': True}, timeout_ms=180000))
    for model in ('simple', '6node'):
        for conv in (False, True):
            for adiabatic in (False, True):
                for power in (True, False):
                    inst.append(dict(label='lowfid[%s,conv_approx=%s,adiabatic=%s,power=%s]' % (model, conv, adiabatic, power),
                                     body=body_lowfid, params={'model': model, 'conv_approx': conv, 'adiabatic': adiabatic, 'power': power}))
    inst.append(dict(label='power-tally', body=body_power_tally, params={}))
    changes = [(('rodded', 1), ('simple',)), (('simple',), ('rodded', 1)), (('6node',), ('rodded', 1)), (('rodded', 2), ('rodded', 1)),
               (('rodded', 1), ('6node',)), (('rodded', 2), ('simple',)), (('simple',), ('rodded', 2)), (('rodded', 3), ('simple',))]
    for o, nw in changes:
        for fsk in ((True, False) if nw[0] == 'rodded' else (False,)):
            for fsi in (('ones', 'zeros') if (nw[0] == 'rodded' and not fsk) else ('ones',)):
                inst.append(dict(label='region-change[%s->%s,fs_known=%s,fs_init=%s]' % ('-'.join(map(str, o)), '-'.join(map(str, nw)), fsk, fsi),
                                 body=body_region_change, params={'kind': o, 'new': nw, 'fs_known': fsk, 'fs_init': fsi},
                                 timeout_ms=180000))
    return inst


def main():
    a = runner.main_args()
    inst = runner.select(instances(a.tier), a.only)
    runner.run_check(
        'C01', inst, a.tier,
        explanation=('One explicit axial step of the real coolant update methods from an arbitrary symbolic state (temperatures, '
                     'powers, step, flow, properties, correlated parameters, derived geometry): the mass-flow weighted enthalpy '
                     'rise equals the tallied power plus the tallied wall heat as one identity per configuration (so conduction, '
                     'mixing and swirl sum to zero), the tallies equal their definitions, and the mixed mean is carried across '
                     'region changes; all decided by z3 over the reals.'),
        bounds={'rings': 'single identity: 2 (quick) / 2..3; decomposed form: 2..4 (quick) / 2..7', 'ducts': '1..2 interior, 2..3 bypass', 'conv_approx': 'on/off',
                'power': 'pins+coolant, pins only, coolant only, none', 'wire direction': 'both',
                'low-fidelity': 'simple and 6-node, adiabatic on/off', 'region changes': '8 kinds'},
        outside=['temperature-dependent property lag and its first-order convergence (properties are frozen over the step)',
                 'stagnant bypass model (not an energy equation; see C04)', 'IEEE residual size'],
        level_assumptions=['derived geometry satisfies the GEOM invariant of C08 (bundle area = sum of subchannel areas, L symmetric, L[1][1] = pitch)',
                           'fs, htc, properties > 0; eddy, swirl >= 0'])


if __name__ == '__main__':
    main()
